# Builds the shimmed SDK from /repo's current working tree plus the simulator
# core and one binary per engine. Everything lands under /verif/build.
REPO ?= /repo
V    ?= /verif
B    := $(V)/build
CXX  := g++
SAN  ?= -fsanitize=address,undefined -fno-sanitize=nonnull-attribute -fno-sanitize-recover=undefined
OPT  ?= -O1 -g1 -fno-omit-frame-pointer
DEFS := -DOPENTELEMETRY_ABI_VERSION_NO=1 -DNDEBUG -DOPENTELEMETRY_CPP_VERIF_SIM
INCS := -I$(REPO)/api/include -I$(REPO)/sdk/include -I$(REPO)/sdk -I$(V)/sim
CXXFLAGS_COMMON := -std=gnu++17 $(OPT) $(SAN) -Wno-deprecated-declarations -pthread
# call-boundary hooks: every function defined in the repository (not libstdc++, not the harness)
# calls __cyg_profile_func_enter/exit, which the simulator core turns into preemption candidates
INSTR := -finstrument-functions -finstrument-functions-exclude-file-list=/usr/,$(V)/,vsim_prefix.h
WRAP  := -Wl,--wrap=__cxa_guard_acquire,--wrap=__cxa_guard_release,--wrap=__cxa_guard_abort
# translation units that see the shims (SDK + scenarios)
SHIM_FLAGS := $(CXXFLAGS_COMMON) $(INSTR) $(DEFS) $(INCS) -include $(B)/pch/vsim_prefix.h -Winvalid-pch
# translation units of the simulator itself (real primitives)
CORE_FLAGS := $(CXXFLAGS_COMMON) -I$(V)/sim

SDK_SRCS := $(shell find $(REPO)/sdk/src -name '*.cc' ! -name '*windows*' | LC_ALL=C sort)
SDK_OBJS := $(patsubst $(REPO)/%.cc,$(B)/%.o,$(SDK_SRCS))

CORE_SRCS := $(V)/sim/vsim_core.cc $(V)/sim/runner.cc $(V)/sim/alloc.cc
CORE_OBJS := $(patsubst $(V)/sim/%.cc,$(B)/core/%.o,$(CORE_SRCS))

ENGINES := queue batch ctx ident span logs metrics async
ENGINE_BINS := $(patsubst %,$(B)/bin/%,$(ENGINES))

.SECONDARY:
.PHONY: all clean sdk engines tools
all: engines tools
sdk: $(B)/libsdk.a
engines: $(ENGINE_BINS)
tools: $(B)/bin/hashmerge

$(B)/pch/vsim_prefix.h: $(V)/sim/vsim_prefix.h $(V)/sim/vsim.h
	@mkdir -p $(dir $@)
	cp $(V)/sim/vsim_prefix.h $@

$(B)/pch/vsim_prefix.h.gch: $(B)/pch/vsim_prefix.h
	$(CXX) $(CXXFLAGS_COMMON) $(INSTR) $(DEFS) $(INCS) -x c++-header $< -o $@

$(B)/sdk/%.o: $(REPO)/sdk/%.cc $(B)/pch/vsim_prefix.h.gch
	@mkdir -p $(dir $@)
	$(CXX) $(SHIM_FLAGS) -MMD -MP -c $< -o $@

$(B)/libsdk.a: $(SDK_OBJS)
	@rm -f $@
	ar rcs $@ $(SDK_OBJS)

$(B)/core/%.o: $(V)/sim/%.cc $(wildcard $(V)/sim/*.h)
	@mkdir -p $(dir $@)
	$(CXX) $(CORE_FLAGS) -MMD -MP -c $< -o $@

$(B)/eng/%.o: $(V)/engines/%.cc $(B)/pch/vsim_prefix.h.gch $(wildcard $(V)/sim/*.h) $(wildcard $(V)/engines/*.h)
	@mkdir -p $(dir $@)
	$(CXX) $(SHIM_FLAGS) -I$(V)/engines -MMD -MP -c $< -o $@

$(B)/bin/%: $(B)/eng/%.o $(CORE_OBJS) $(B)/libsdk.a
	@mkdir -p $(dir $@)
	$(CXX) $(CXXFLAGS_COMMON) $(WRAP) -o $@ $< $(CORE_OBJS) $(B)/libsdk.a

$(B)/bin/hashmerge: $(V)/sim/hashmerge.cc
	@mkdir -p $(dir $@)
	$(CXX) -O2 -std=gnu++17 -o $@ $<

clean:
	rm -rf $(B)

-include $(SDK_OBJS:.o=.d)
-include $(CORE_OBJS:.o=.d)
-include $(patsubst %,$(B)/eng/%.d,$(ENGINES))
