#!/bin/bash
# determinism.sh [count] - every engine/property: run `count` seeds (default 600) in digest
# mode three ways - one process in index order, 16 processes interleaved (different
# predecessors per seed), 4 processes - and diff (index, trace hash, case hash, points,
# verdict) line by line. Any difference is a nondeterminism bug in the machinery.
set -u
N=${1:-600}
B=${VERIF_BUILD:-/verif/build}
T=$(mktemp -d /tmp/vdet.XXXXXX)
trap 'rm -rf "$T"' EXIT
declare -A ENG=( [C11]=queue [C01]=batch [C02]=batch [C03]=batch [C04]=span [C05]=ident [C10]=ctx [C13]=logs [C06]=metrics [C07]=metrics [C08]=metrics [C17]=async )
rc=0
for P in C01 C02 C03 C04 C05 C06 C07 C08 C10 C11 C13 C17; do
  E=${ENG[$P]}
  $B/bin/$E --digest --prop $P --seed ${VERIF_SEED:-1} --first-index 0 --count $N --step 1 2>/dev/null | sort -k2 -n > $T/a.txt
  : > $T/b.txt
  for w in $(seq 0 15); do
    ( taskset -c $w $B/bin/$E --digest --prop $P --seed ${VERIF_SEED:-1} --first-index $w --count $(( (N - w + 15) / 16 )) --step 16 2>/dev/null > $T/b.$w ) &
  done
  wait
  cat $T/b.* | sort -k2 -n > $T/b.txt; rm -f $T/b.[0-9]*
  : > $T/c.txt
  for w in 0 1 2 3; do
    ( $B/bin/$E --digest --prop $P --seed ${VERIF_SEED:-1} --first-index $w --count $(( (N - w + 3) / 4 )) --step 4 2>/dev/null > $T/c.$w ) &
  done
  wait
  cat $T/c.* | sort -k2 -n > $T/c.txt; rm -f $T/c.[0-9]*
  na=$(wc -l < $T/a.txt)
  if cmp -s $T/a.txt $T/b.txt && cmp -s $T/a.txt $T/c.txt && [ "$na" -eq "$N" ]; then
    echo "$P ($E): $na seeds identical across 1/16/4 processes"
  else
    echo "$P ($E): DIVERGENCE ($na lines)"; diff $T/a.txt $T/b.txt | head -5; diff $T/a.txt $T/c.txt | head -5; rc=1
  fi
done
exit $rc
