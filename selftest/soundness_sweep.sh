#!/bin/bash
# soundness_sweep.sh [nseeds] [budget_s] - every registered check, nseeds different VERIF_SEEDs on the
# unchanged tree; any exit code other than 0 or any VIOLATION / NONDETERMINISM line is a false alarm
# (or a new finding) to be investigated. Evidence files are restored afterwards.
cd /verif
N=${1:-20}; export VERIF_BUDGET_S=${2:-6}
T=$(mktemp -d /tmp/vsweep.XXXXXX); cp -a evidence $T/evidence
bad=0
for P in C01 C02 C03 C04 C05 C06 C07 C08 C10 C11 C13 C17; do
  for s in $(seq 1 $N); do
    seed=$(( s * 7919 + 13 ))
    out=$(VERIF_SEED=$seed bin/check $P quick 2>&1); rc=$?
    if [ $rc -ne 0 ] || echo "$out" | grep -q -E "^VIOLATION|NONDETERMINISM|INFRA"; then
      bad=$((bad+1)); echo "ALARM $P seed=$seed rc=$rc"; echo "$out" | grep -E "VIOLATION|NONDET|INFRA|detail|class=" | head -5
      mkdir -p build/sweep-alarms; cp -a replays/*.json build/sweep-alarms/ 2>/dev/null
    fi
  done
  echo "$P: $N seeds done (alarms so far: $bad)"
done
rm -rf evidence; cp -a $T/evidence evidence; rm -rf $T
echo "SWEEP DONE alarms=$bad"
exit $bad
