#!/usr/bin/env python3
"""Rebuilds /repo/_build, runs the repository's ctest suite (guard off: there is no
hook in /repo) and reports every failed test that is in BASELINE.json's stable_pass."""
import json, re, subprocess, sys
b = json.load(open('/root/.vp/BASELINE.json'))
stable = set(b['stable_pass'])
if subprocess.run(['ninja', '-C', '/repo/_build'], stdout=subprocess.DEVNULL).returncode != 0:
    print('BUILD FAILED'); sys.exit(2)
p = subprocess.run(['ctest', '--test-dir', '/repo/_build', '-j16', '--timeout', '900'],
                   stdout=subprocess.PIPE, stderr=subprocess.STDOUT, text=True)
failed = re.findall(r'^\s*\d+ - (\S+) \((?:Failed|Timeout|[A-Za-z ]+)\)', p.stdout, re.M)
bad = []
for f in failed:
    parts = f.split('.')
    cands = {f + '::' + f, '::'.join(parts[-2:])}
    m = re.match(r'.*?([A-Za-z0-9_/]+)\.([A-Za-z0-9_/]+)$', f)
    if m: cands.add(m.group(1) + '::' + m.group(2))
    if cands & stable: bad.append(f)
m = re.search(r'(\d+)% tests passed, (\d+) tests failed out of (\d+)', p.stdout)
print(m.group(0) if m else p.stdout[-500:])
print('failed (not in stable_pass):', [f for f in failed if f not in bad])
print('FAILED STABLE TESTS:', bad)
sys.exit(1 if bad else 0)
