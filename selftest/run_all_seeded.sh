#!/bin/bash
# run_all_seeded.sh - re-runs every kept seeded change against its property's quick check
# (budget VERIF_BUDGET_S, default 12 s) and prints verdict, first failing run index, classes.
cd /verif
export VERIF_BUDGET_S=${VERIF_BUDGET_S:-12}
for d in seeded/*/; do
  i=$(basename $d); p=$(python3 -c "import json;print(json.load(open('$d/meta.json'))['property'])")
  out=$(selftest/run_mutant.sh $d/patch.diff $p 2>&1); rc=$?
  cls=$(echo "$out" | grep -o "minimised replay: [^|]*" | sed 's/minimised replay: //' | sort -u | tr '\n' ' ')
  first=$(echo "$out" | grep -o "^VIOLATION.*replays/[^ ]*" | sed 's/.*-\([0-9]*\)\.json/\1/' | sort -n | head -1)
  case $rc in 1) v=CAUGHT;; 0) v=MISSED;; *) v="rc=$rc";; esac
  printf "%-52s %-4s %-8s first_index=%-8s %s\n" "$i" "$p" "$v" "${first:--}" "$cls"
done
