#!/bin/bash
# coverage.sh [budget_s] - reach report: builds the shimmed SDK and the engines with gcov
# instrumentation (no sanitizers) in /verif/build-cov, runs every property's worker for a
# short budget and reports, per property, line coverage of the property's anchor files and
# the anchor lines never executed. A blind spot shows up here before a mutant finds it.
set -u
cd /verif
BUD=${1:-8}
B=/verif/build-cov
make -j16 B=$B SAN= OPT="-O0 -g --coverage -DVSIM_GCOV" all > $B.build.log 2>&1 || { tail -5 $B.build.log; exit 2; }
declare -A ENG=( [C11]=queue [C01]=batch [C02]=batch [C03]=batch [C04]=span [C05]=ident [C10]=ctx [C13]=logs [C06]=metrics [C07]=metrics [C08]=metrics [C17]=async )
mkdir -p $B/tmp $B/report
for P in ${2:-C01 C02 C03 C04 C05 C06 C07 C08 C10 C11 C13 C17}; do
  find $B -name '*.gcda' -delete
  E=${ENG[$P]}
  for w in 0 1 2 3 4 5 6 7; do
    ( taskset -c $w $B/bin/$E --worker --prop $P --seed 1 --widx $w --nworkers 8 --budget-s $BUD --out-dir $B/tmp > /dev/null 2>&1 ) &
  done
  wait
  python3 - "$P" "$B" <<'PY'
import json, os, subprocess, sys, re, glob
P, B = sys.argv[1], sys.argv[2]
props = {json.loads(l)['id']: json.loads(l) for l in open('/verif/properties.jsonl')}
anchors = [f for f in props[P]['anchors']['files']]
# gcov -i style json for every gcda
covered = {}   # file -> {line: count}
gcdas = glob.glob(B + '/**/*.gcda', recursive=True)
for g in gcdas:
    r = subprocess.run(['gcov', '-t', '-j', g], cwd=os.path.dirname(g), stdout=subprocess.PIPE, stderr=subprocess.DEVNULL)
    for doc in r.stdout.decode(errors='replace').splitlines():
        try: j = json.loads(doc)
        except Exception: continue
        for f in j.get('files', []):
            name = os.path.normpath(os.path.join(j.get('current_working_directory', ''), f['file']))
            if not name.startswith('/repo/'): continue
            d = covered.setdefault(name[len('/repo/'):], {})
            for ln in f['lines']:
                d[ln['line_number']] = d.get(ln['line_number'], 0) + ln['count']
out = []
for a in anchors:
    d = covered.get(a)
    if not d:
        out.append("  %-75s not compiled into this engine / no executable lines" % a); continue
    tot = len(d); hit = sum(1 for v in d.values() if v > 0)
    miss = sorted(l for l, v in d.items() if v == 0)
    # compress ranges
    rng = []; 
    for l in miss:
        if rng and l == rng[-1][1] + 1: rng[-1][1] = l
        else: rng.append([l, l])
    ms = ",".join("%d" % a0 if a0 == b0 else "%d-%d" % (a0, b0) for a0, b0 in rng[:40])
    out.append("  %-75s %4d/%4d lines (%3d%%)  never executed: %s" % (a, hit, tot, 100 * hit // max(tot, 1), ms))
open(B + '/report/%s.txt' % P, 'w').write("\n".join(out) + "\n")
print(P); print("\n".join(out))
PY
done
