#!/bin/bash
# run_mutant.sh <patch-file> <property> [tier] - applies a patch to a scratch copy of
# /repo (outside /repo and /verif), runs the property's check against it with
# a scratch build directory seeded from /verif/build, and removes everything.
# exit code = exit code of the check (1 = the mutant was caught).
set -u
PATCH=$(readlink -f "$1"); PROP=$2; TIER=${3:-quick}
M=$(mktemp -d /tmp/vmut.XXXXXX)
trap 'rm -rf "$M"' EXIT
cp -a /repo/api /repo/sdk "$M"/
if ! (cd "$M" && patch -p1 --no-backup-if-mismatch -s < "$PATCH"); then echo "PATCH-FAILED"; exit 3; fi
if [ -d /verif/build/sdk ]; then
  mkdir -p "$M/build"
  cp -a /verif/build/sdk /verif/build/pch /verif/build/core /verif/build/eng "$M/build/" 2>/dev/null
  [ -f /verif/build/libsdk.a ] && cp -a /verif/build/libsdk.a "$M/build/"
  find "$M/build" -name '*.d' -print0 | xargs -0 sed -i "s#/repo/#$M/#g; s#/verif/build/#$M/build/#g"
fi
# the machinery itself is snapshotted too, so /verif can be edited while a mutant run is going on
mkdir -p "$M/verif"
cp -a /verif/sim /verif/engines /verif/bin /verif/Makefile /verif/KNOWN_FINDINGS.txt "$M/verif/"
find "$M/build" -name '*.d' -print0 2>/dev/null | xargs -0 -r sed -i "s#/verif/sim/#$M/verif/sim/#g; s#/verif/engines/#$M/verif/engines/#g"
cd "$M/verif"
VERIF_HOME="$M/verif" VERIF_REPO="$M" VERIF_BUILD="$M/build" VERIF_REPLAY_DIR="$M/replays" VERIF_EVIDENCE_DIR="$M/evidence" bin/check "$PROP" "$TIER"
rc=$?
if [ -n "${KEEP_REPLAYS_DIR:-}" ] && [ -d "$M/replays" ]; then mkdir -p "$KEEP_REPLAYS_DIR"; cp "$M"/replays/*.json "$KEEP_REPLAYS_DIR"/ 2>/dev/null; fi
if [ -d "$M/replays" ]; then
  for f in "$M"/replays/*.json; do [ -f "$f" ] && python3 - "$f" <<'PY'
import json,sys
j=json.load(open(sys.argv[1]))
print("  minimised replay:", j["expect"]["class"], "|", j["expect"]["detail"][:300])
print("  knobs:", j["knobs"], "decisions:", len(j["decisions"]), "faults:", len(j["faults"]))
for t in j["tasks"]: print("   task role", t["role"], t.get("ops_text"))
PY
  done
fi
exit $rc
