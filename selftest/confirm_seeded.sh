#!/bin/bash
# confirm_seeded.sh <worktree-with-SEEDED> <seeded-id> - independent confirmation of a
# sub-agent's change in the scratch worktree /tmp/confirm (full build of the repository):
# the patch applies, everything builds, the repository's suite shows no failure of a
# stable test, the demonstration fails with the change and passes without it. On success the
# artefacts are copied to /verif/seeded/<id>/.
set -u
WT=$1; ID=$2; C=/tmp/confirm
cd $C || exit 2
git checkout -q -- . ; rm -rf $C/SEEDED; cp -a $WT/SEEDED $C/SEEDED
git apply SEEDED/patch.diff || { echo "CONFIRM: patch does not apply"; exit 1; }
ninja -C _build -j16 > /tmp/confirm-ninja.log 2>&1 || { echo "CONFIRM: build failed"; tail -5 /tmp/confirm-ninja.log; git checkout -q -- .; exit 1; }
ctest --test-dir _build -j16 --timeout 900 > /tmp/confirm-ctest.log 2>&1
# the repository's sleep-based tests (e.g. PeriodicExporingMetricReader.BasicTests) fail under a
# loaded machine whatever the change: what failed is run once more, two at a time, and only what
# fails again counts
if grep -q "tests failed out of" /tmp/confirm-ctest.log && ! grep -q " 0 tests failed" /tmp/confirm-ctest.log; then
  total=$(grep -o "out of [0-9]*" /tmp/confirm-ctest.log | tail -1)
  ctest --test-dir _build --rerun-failed -j2 --timeout 900 > /tmp/confirm-ctest-rerun.log 2>&1
  if grep -q "100% tests passed" /tmp/confirm-ctest-rerun.log; then
    echo "100% tests passed, 0 tests failed $total (after re-running the failed ones alone)" > /tmp/confirm-ctest.log
  else
    cp /tmp/confirm-ctest-rerun.log /tmp/confirm-ctest.log
  fi
fi
python3 - <<'PY'
import json,re,sys
b=json.load(open('/root/.vp/BASELINE.json')); stable=set(b['stable_pass'])
out=open('/tmp/confirm-ctest.log').read()
failed=re.findall(r'^\s*\d+ - (\S+) \(', out, re.M)
bad=[]
for f in failed:
    parts=f.split('.')
    c={f+'::'+f, '::'.join(parts[-2:])}
    if c & stable: bad.append(f)
m=re.search(r'(\d+)% tests passed, (\d+) tests failed out of (\d+)', out)
print('CONFIRM suite with change:', m.group(0) if m else '?', '| failed stable tests:', bad)
open('/tmp/confirm-suite.txt','w').write((m.group(0) if m else '?')+' ; failed stable tests: '+str(bad))
sys.exit(1 if bad else 0)
PY
suite_rc=$?
( bash SEEDED/demo_build.sh > /tmp/confirm-demo-with.log 2>&1 ); with_rc=$?
git apply -R SEEDED/patch.diff
ninja -C _build -j16 > /tmp/confirm-ninja2.log 2>&1
( bash SEEDED/demo_build.sh > /tmp/confirm-demo-without.log 2>&1 ); without_rc=$?
echo "CONFIRM demo with change: rc=$with_rc ($(tail -1 /tmp/confirm-demo-with.log | cut -c1-120)) ; without: rc=$without_rc ($(tail -1 /tmp/confirm-demo-without.log | cut -c1-120))"
git checkout -q -- . ; git clean -fdq -e _build ; rm -rf $C/SEEDED
if [ $suite_rc -eq 0 ] && [ $with_rc -ne 0 ] && [ $without_rc -eq 0 ]; then
  mkdir -p /verif/seeded/$ID; cp -a $WT/SEEDED/. /verif/seeded/$ID/
  python3 - $ID $with_rc <<'PY'
import json,sys
p='/verif/seeded/%s/meta.json'%sys.argv[1]
try: m=json.load(open(p))
except Exception: m={}
m['confirmed']={'suite': open('/tmp/confirm-suite.txt').read(), 'demo_with_change_rc': int(sys.argv[2]), 'demo_without_change_rc': 0,
  'how': 'selftest/confirm_seeded.sh: git apply in a scratch worktree with a full build of the repository, ninja, ctest -j16 (no stable test failed), demo_build.sh with and without the change'}
json.dump(m, open(p,'w'), indent=1)
PY
  echo "CONFIRMED -> /verif/seeded/$ID"
else
  echo "NOT CONFIRMED (suite_rc=$suite_rc with_rc=$with_rc without_rc=$without_rc)"; exit 1
fi
