#!/bin/bash
# run_all_mutants.sh [pattern] - runs every selftest/mutants/<prop>-*.patch against its
# property's quick check (budget VERIF_BUDGET_S, default 10 s) and prints one line each.
cd /verif
export VERIF_BUDGET_S=${VERIF_BUDGET_S:-10}
for f in selftest/mutants/${1:-*}.patch; do
  n=$(basename $f .patch); p=${n%%-*}
  out=$(selftest/run_mutant.sh $f $p 2>&1); rc=$?
  cls=$(echo "$out" | grep -o "minimised replay: [^|]*" | sed 's/minimised replay: //' | sort -u | tr '\n' ' ')
  first=$(echo "$out" | grep -o "^VIOLATION.*replays/[^ ]*" | sed 's/.*-\([0-9]*\)\.json/\1/' | sort -n | head -1)
  case $rc in 1) v=CAUGHT;; 0) v=MISSED;; *) v="rc=$rc";; esac
  printf "%-50s %-8s first_index=%-8s %s\n" "$n" "$v" "${first:--}" "$cls"
done
