#!/bin/bash
# seeded_check.sh <seeded-id> <property> [budget] - runs the property's check against
# /verif/seeded/<id>/patch.diff (scratch copy, removed afterwards) and records the outcome
# in meta.json under "verif".
ID=$1; P=$2; export VERIF_BUDGET_S=${3:-15}
out=$(/verif/selftest/run_mutant.sh /verif/seeded/$ID/patch.diff $P 2>&1); rc=$?
echo "$out" | grep -E "^VIOLATION|minimised replay|quick:|PATCH|BUILD" | head -8
python3 - "$ID" "$P" "$rc" "$VERIF_BUDGET_S" <<PY
import json,sys,re
i,p,rc,b=sys.argv[1:5]
out=open('/dev/stdin').read() if False else """$(echo "$out" | grep -E "minimised replay|quick:" | head -6 | sed 's/"/\\"/g')"""
path='/verif/seeded/%s/meta.json'%i
m=json.load(open(path))
m.setdefault('verif',{})[p]={'command':'VERIF_BUDGET_S=%s selftest/run_mutant.sh seeded/%s/patch.diff %s'%(b,i,p),'exit_code':int(rc),'caught':int(rc)==1,'classes':sorted(set(re.findall(r'minimised replay: (\S+)',out))),'summary':[l.strip() for l in out.splitlines() if 'quick:' in l]}
json.dump(m,open(path,'w'),indent=1)
PY
exit $rc
