#!/bin/bash
# thorough_pass.sh [seed] [budget_s] - every check at the thorough tier, evidence and replays kept apart
# (build/thorough-evidence, build/thorough-replays) so that committed evidence is not touched.
cd /verif
S=${1:-20260927}; export VERIF_BUDGET_S=${2:-600}
for P in C06 C07 C08 C17 C13 C10 C11 C01 C02 C03 C04 C05; do
  VERIF_EVIDENCE_DIR=/verif/build/thorough-evidence VERIF_REPLAY_DIR=/verif/build/thorough-replays VERIF_SEED=$S nice -n 10 bin/check $P thorough
  echo "rc=$?"
done
