#!/usr/bin/env python3
"""Regenerates /verif/MANIFEST.json from the tables below (single source of truth)."""
import json, os, subprocess

NA = {
 "C09":"pure function of its inputs (stateless string <-> SpanContext codecs over caller-owned carriers): no schedule, clock, fault or interleaving for a simulator to choose; driving it from a seeded generator would be property-based testing, not deterministic simulation (DESIGN.md section 6)",
 "C12":"ShouldSample is a pure function of (ratio, trace id, parent context); quantifier is inputs only (DESIGN.md section 6)",
 "C14":"TraceState is an immutable sequential value type (Set/Delete return new objects); no concurrency, time or fault dimension (DESIGN.md section 6)",
 "C15":"Baggage is an immutable value type and the propagators are stateless header codecs; quantifier is inputs/histories of a sequential value (DESIGN.md section 6)",
 "C16":"B3/Jaeger propagators are stateless codecs; quantifier is inputs only (DESIGN.md section 6)",
 "C18":"Resource merge and environment parsing are pure functions of maps and strings; getenv is configuration input, not a fault surface (DESIGN.md section 6)",
 "C19":"instrument-name validation, view selection and scope configurators are pure predicates over names/selectors; no schedule or fault dimension (DESIGN.md section 6)",
 "C20":"nostd vocabulary types are sequential value/ownership types compared with std counterparts; no schedule, clock or fault dimension (DESIGN.md section 6)",
}
TECH = "deterministic simulation with fault injection (seeded schedule/fault search over the real SDK recompiled against scheduler-controlled std:: primitives; history oracle; minimised replay)"
NOTE = ("sequentially consistent atomics only (the scheduler serialises tasks); preemption at shimmed std:: operations (before each, "
        "after each publishing one), harness yields and - except in the queue and ctx engines - entries/exits of repository functions "
        "(call-boundary points, DESIGN 2.2), never inside libstdc++/libc code; seeded sampling, no exhaustive enumeration; "
        "SDK compiled with -DNDEBUG, ABI v1, WITH_STL=OFF under ASan+UBSan")
ENGINES = {
 "queue": ("engines/queue.cc", "real CircularBuffer/AtomicUniquePtr/SpinLockMutex headers over scheduler-controlled std::atomic; spurious weak-CAS failures, task stalls"),
 "batch": ("engines/batch.cc", "real batch/simple/multi span+log processors, providers and PeriodicExportingMetricReader with stub exporters (fail/slow/stall fault plan), simulated clock and timers"),
 "span": ("engines/span.cc", "real TracerProvider/Tracer/Span/SpanData/multi+simple+batch span processors with harness recordables that yield inside Span's critical section; caller buffers overwritten and freed after every call"),
 "ident": ("engines/ident.cc", "real Tracer::StartSpan/Span/samplers/random id generator/runtime context with scripted sampler, sequential id generator and capturing exporter"),
 "ctx": ("engines/ctx.cc", "real Context/RuntimeContext/Scope (header-only API) driven from 2-3 simulated tasks sharing a family of contexts; lock-step stack and persistent-map models"),
 "logs": ("engines/logs.cc", "real LoggerProvider/Logger/ReadWriteLogRecord/multi+simple+batch log processors with active spans per task and caller-buffer release"),
 "metrics": ("engines/metrics.cc", "real MeterProvider/Meter/sync storages/temporal storage/aggregations/views/attribute maps with pull-reader stubs collected from simulated tasks; base-4 coded measurements"),
 "async": ("engines/async.cc", "real observable instruments/ObservableRegistry/AsyncMetricStorage/LastValue+Sum aggregations and SyncMetricStorage(kGauge) with scripted callbacks, callbacks added/removed while collections run, clock strata"),
}
CHECKS = {
 "C11": ("queue", "seeded search over interleavings of every atomic step of 1-3 producers and one consumer (and 2-3 spin-lock contenders) with spurious CAS failures and task stalls; exactly-once, per-producer FIFO, failure legitimacy, occupancy, leak/double-free, mutual exclusion and bounded liveness checked on every run", "DESIGN.md section 4 (C11)"),
 "C01": ("batch", "seeded search over producer/worker/flush/shutdown interleavings, knob space and exporter fault plans on the real batch span/log processors (directly and through providers); exactly-once, per-producer order, drop legitimacy (exact in the phase-structured stratum), nothing exported that was produced after shutdown, producers never blocked by a stalled exporter", "DESIGN.md section 4 (C01)"),
 "C02": ("batch", "seeded search over concurrent flushers, shutdown callers, timeouts and exporter faults on batch processors, providers and the periodic reader; 'returned true => everything before is exported and the exporter was flushed', shutdown once and final, promptness after shutdown, bounded liveness (deadlock / point-budget detection)", "DESIGN.md section 4 (C02)"),
 "C03": ("batch", "in-flight Export counter checked at every Export entry of stub exporters that yield and sleep simulated time inside Export (simple processors from several tasks, batch worker vs ForceFlush/Shutdown, periodic reader vs ForceFlush); every batch of a batch processor within 1..max_export_batch_size including after earlier ForceFlush calls", "DESIGN.md section 4 (C03)"),
 "C04": ("span", "seeded search over span operation sequences issued by 1-2 tasks per span racing End, 1-3 processors of mixed kind, deferred export after caller buffers were overwritten and freed; exported SpanData compared with a reference model, once per processor", "DESIGN.md section 4 (C04)"),
 "C05": ("ident", "seeded search over span trees on 1-3 tasks mixing the three parenting mechanisms, remote/local parents, samplers and id generators, deep scope nests across the runtime stack's growth steps, and a simulated fork() of the calling task; identity/flag/trace-state model, uniqueness of ids across tasks and across a fork, cross-task isolation of active spans", "DESIGN.md section 4 (C05)"),
 "C10": ("ctx", "seeded search over SetValue/GetValue/Attach/Detach/Scope programs on 2-3 tasks sharing a family of contexts; per-task stack model and persistent-context model", "DESIGN.md section 4 (C10)"),
 "C13": ("logs", "seeded search over emit programs on 1-3 tasks with their own active-span stacks through simple/batch/multi processors with caller buffers overwritten/freed after Emit; record model, correlation model, once per processor", "DESIGN.md section 4 (C13)"),
 "C06": ("metrics", "seeded search over recorder tasks racing collector tasks for 1-3 readers of mixed temporality; base-4 coded measurements make exactly-once per reader decidable; abutting delta intervals under a non-repeating system clock", "DESIGN.md section 4 (C06)"),
 "C07": ("metrics", "histogram values split over collection cycles/readers while recording; one-shot histogram model, lossless merge", "DESIGN.md section 4 (C07)"),
 "C08": ("metrics", "key order/duplicates per call, allow-lists, cardinality limits, several cycles, mixed readers; series identity, count <= limit, conservation through the overflow series", "DESIGN.md section 4 (C08)"),
 "C17": ("async", "callbacks added/removed while collections run, 1-3 readers, clock strata; once per collection, never after removal, last value / totals / per-reader deltas", "DESIGN.md section 4 (C17)"),
}
built = [e for e in ENGINES if os.path.exists("/verif/" + ENGINES[e][0])]
claimed = sorted(p for p in CHECKS if CHECKS[p][0] in built and p not in set(os.environ.get("VERIF_UNCLAIMED", "").split(",")))
m = {
 "version": 1,
 "setup_cmd": "make -C /verif -j16 all",
 "hooks": {"guard": "OPENTELEMETRY_CPP_VERIF_SIM",
   "enable": "no source hook exists in /repo: checks recompile the unmodified sdk/src/**/*.cc and headers from /repo's working tree with -DOPENTELEMETRY_CPP_VERIF_SIM -include /verif/build/pch/vsim_prefix.h (token-renaming shim of std::atomic/mutex/condition_variable/thread/clocks/...); the define is used only by /verif sources",
   "baseline_off_cmd": "ninja -C /repo/_build > /dev/null && ctest --test-dir /repo/_build -j8 --timeout 900", "source_commits": [], "add_only": True},
 "engines": [{"name": e, "path": ENGINES[e][0], "serves_properties": [p for p in claimed if CHECKS[p][0] == e],
              "kind_free_text": "deterministic simulation: " + ENGINES[e][1]} for e in built],
 "checks": [{
   "property_id": p, "engine": CHECKS[p][0],
   "quick_cmd": "bin/check %s quick" % p, "thorough_cmd": "bin/check %s thorough" % p,
   "evidence_file": "/verif/evidence/%s.json" % p, "replay_cmd_template": "bin/check --replay {path}",
   "level_claimed": {"category": "exploration", "text": CHECKS[p][1] + ". Sampling, not enumeration: a clean batch is evidence with a stated size, not proof.", "design_ref": CHECKS[p][2]},
   "level_note": NOTE, "technique": TECH} for p in claimed],
 "not_applicable": [{"property_id": k, "reason": v} for k, v in NA.items()] +
                   [{"property_id": p, "reason": "check not built yet in this round (planned: deterministic simulation, DESIGN.md section 4)"} for p in sorted(CHECKS) if p not in claimed],
 "notes": "All checks: bin/check <id> <tier>; VERIF_SEED selects the seed, VERIF_BUDGET_S overrides the search budget (quick 40 s, thorough 600 s of search on 16 pinned workers). Known findings and fixed defects: KNOWN_FINDINGS.txt. Fix commits in /repo start with 'fix:'.",
}
json.dump(m, open("/verif/MANIFEST.json", "w"), indent=1)
print("claimed:", claimed)
