#!/usr/bin/env python3
# Rewrites the seeded-change table of DESIGN.md section 11.4 from seeded/*/meta.json.
import json, glob, os, re
rows = []
for d in sorted(glob.glob('/verif/seeded/C*/')):
    i = os.path.basename(d.rstrip('/'))
    m = json.load(open(d + 'meta.json'))
    need = ' '.join(str(m.get('needs_to_manifest', '')).split())
    need = (need[:140] + '...') if len(need) > 140 else need
    need = need.replace('|', '/')
    for p, v in sorted(m.get('verif', {}).items()):
        res = 'CAUGHT' if v.get('caught') else 'MISSED'
        if m.get('history'):
            res += ' (missed at first, see below)' if v.get('caught') else ''
        cls = ', '.join('`%s`' % c for c in v.get('classes', []))
        rows.append('| %s | %s | %s %s | %s |' % (i, need, p, res, cls))
s = open('/verif/DESIGN.md').read()
hdr = '| seeded change | what it needs to manifest (agent\'s words, abridged) | check | classes reported |\n|---|---|---|---|\n'
a = s.index(hdr) + len(hdr)
b = s.index('\n\n', a)
s = s[:a] + '\n'.join(rows) + s[b:]
open('/verif/DESIGN.md', 'w').write(s)
print(len(rows), 'rows')
