#!/bin/bash
# agent_prompt.sh <property> <letter> - prepares a scratch worktree /tmp/wt-<P><letter> of /repo HEAD and
# writes the sub-agent prompt /tmp/agentprops/full-<P><letter>.txt: the property text, build instructions,
# and one-line summaries of the changes other agents already produced for that property (so that the new
# one is different). Nothing about /verif's machinery is in the prompt.
set -eu
P=$1; L=$2; X=$P$L; WT=/tmp/wt-$X
mkdir -p /tmp/agentprops
git -C /repo worktree add --detach -q $WT HEAD
python3 - "$P" "$WT" > /tmp/agentprops/full-$X.txt <<'PY'
import json,sys,glob
P,WT=sys.argv[1:3]
for l in open('/verif/properties.jsonl'):
    d=json.loads(l)
    if d['id']==P: break
prop = "Property %s: %s\n\nStatement: %s\n\nQuantifier: %s\n\nWhy existing tests cannot settle it: %s\n\nAnchors (files): %s\nMechanisms: %s\n" % (
    d['id'], d['title'], d['statement'], d['quantifier']['text'], d['why_tests_cant'],
    ", ".join(d['anchors']['files']), "; ".join("%s (%s)" % (m['name'], m['where']) for m in d['anchors']['mechanism']))
t=open('/verif/tools/agent_prompt.tmpl').read().replace('__WT__',WT).replace('__ID__',P).replace('__PROP__',prop)
print(t)
print("ADDITIONAL GUIDANCE: other engineers have already produced the following changes for this property; do NOT repeat them or close variants (choose a different file/function/mechanism if you can):")
for f in sorted(glob.glob('/verif/seeded/%s-*/meta.json'%P)):
    m=json.load(open(f)); print('-', ' '.join(m['summary'].split())[:300])
print("Read the property statement clause by clause and think about which part of the statement nobody is likely to check - an unusual but legal configuration, a less-travelled API overload or code path, a clause about a second processor/reader/handle/thread, a boundary value, a type or input class that fixed tests never use, behaviour that depends on memory addresses or object lifetime, data read after a lock was released, the very first use of something racing with another first use, a timeout that expires at a particular point, an error return from a callee - and break THAT.")
PY
echo /tmp/agentprops/full-$X.txt
