#!/usr/bin/env python3
"""Regenerates /verif/seeded/README.md from the meta.json of every kept seeded change."""
import glob, json, os
rows = []
for d in sorted(glob.glob('/verif/seeded/*/')):
    mp = d + 'meta.json'
    if not os.path.exists(mp): continue
    m = json.load(open(mp))
    i = os.path.basename(d.rstrip('/'))
    v = m.get('verif', {})
    caught = "; ".join("%s: %s (%s)" % (p, "CAUGHT" if r.get('caught') else "missed", ", ".join(r.get('classes', [])) or "-") for p, r in sorted(v.items())) or "not run yet"
    if m.get('history'): caught += " - " + m['history']
    rows.append((i, m.get('property', '?'), (m.get('summary', '') or '').replace('\n', ' ')[:260], (m.get('needs_to_manifest', '') or '').replace('\n', ' ')[:220], caught))
with open('/verif/seeded/README.md', 'w') as f:
    f.write("# Seeded changes\n\nEach directory holds a change to open-telemetry/opentelemetry-cpp written by an independent sub-agent that was given only the text of one property and a scratch worktree (nothing from /verif): `patch.diff`, the agent's demonstration (`demo*`, `demo_build.sh`: fails with the change, passes without it) and `meta.json` (what it breaks, what it needs to manifest, what was run). Every change was confirmed with `selftest/confirm_seeded.sh` (applies, builds, the repository's suite shows no failure of a stable test, demo fails with / passes without) and then run against the property's check with `selftest/seeded_check.sh` (scratch copy of /repo under /tmp, removed afterwards). None of these changes is ever committed to /repo.\n\n")
    f.write("| id | property | change | needs to manifest | checks |\n|---|---|---|---|---|\n")
    for r in rows:
        f.write("| %s | %s | %s | %s | %s |\n" % r)
print(len(rows), "seeded changes")
