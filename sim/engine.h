// engine.h - what an engine (scenario + model + oracle) provides to the runner.
// Free of renamed tokens: included from shimmed and unshimmed code alike.
#pragma once
#include <cstdint>
#include <string>
#include <utility>
#include <vector>

#include "rng.h"
#include "vsim.h"

namespace vsim
{

struct Op
{
  int kind  = 0;
  int64_t a = 0, b = 0, c = 0, d = 0;
};

struct TaskProg
{
  int role = 0;
  std::vector<Op> ops;
};

// Engine-level fault: attached to a site (target, at) rather than to a global
// call index, e.g. "the at-th Export call of exporter `target`".
struct Fault
{
  int kind    = 0;
  int target  = 0;
  int at      = 0;
  int64_t arg = 0;
};

struct Case
{
  std::string prop;
  std::string stratum;
  uint64_t seed = 0;  // run seed the case was generated from (informational)
  std::vector<std::pair<std::string, int64_t>> knobs;
  std::vector<TaskProg> tasks;
  std::vector<Fault> faults;
  RunConfig rc;

  int64_t knob(const char *name, int64_t dflt = 0) const
  {
    for (auto &k : knobs)
      if (k.first == name)
        return k.second;
    return dflt;
  }
  void set(const char *name, int64_t v)
  {
    for (auto &k : knobs)
      if (k.first == name)
      {
        k.second = v;
        return;
      }
    knobs.emplace_back(name, v);
  }
};

struct Violation
{
  std::string cls;     // stable class name, starts with the property id
  std::string detail;  // human readable
};

// Reported from inside a run (invariants) or from the post-run oracle.
void report(const std::string &cls, const std::string &detail);
const std::vector<Violation> &reported();

struct EngineDesc
{
  const char *name;
  const char *const *props;  // null terminated
  // Builds the workload, engine fault plan and the simulator configuration for
  // one run. wl: configuration + workload stream, fl: fault plan stream.
  void (*generate)(const std::string &prop, Rng &wl, Rng &fl, Case &out);
  // Root task of the run: builds the world, spawns tasks, tears down.
  void (*body)(const Case &c);
  // Post-run oracle over the recorded history (driver thread, outside the sim).
  void (*check)(const Case &c, const RunResult &r);
  // Human readable operation, for samples and replay files.
  std::string (*describe_op)(const Case &c, int role, const Op &op);
  std::string (*describe_fault)(const Case &c, const Fault &f);
  // Shrinking hint: knobs that may be lowered towards `min` (name, min).
  const std::pair<const char *, int64_t> *shrinkable_knobs;  // null terminated by name==nullptr
  const char *const *real_components;
  const char *const *stub_components;
  const char *rule;  // generation rule / distinctness text per engine
};

extern const EngineDesc g_engine;

// Draws the simulator configuration shared by all engines (strategy, cost per
// point, clock policy, scheduler-level fault rates) from the fault stream.
struct SimKnobs
{
  bool allow_cas_spurious = false;
  bool allow_cv_spurious  = false;
  bool allow_stall        = false;
  bool allow_sysjump      = false;
  bool allow_spawn_fail   = false;
  bool allow_coarse_clock = false;
  bool faults_on          = true;  // false: fault-free stratum
  bool allow_call_points  = false; // call-boundary preemption (engine's oracles must not assume atomicity between schedule points)
  int typical_len         = 400;
  int64_t stall_cap       = 3000;  // longest task_stall (in points) this engine can afford
};
void draw_run_config(Rng &fl, const SimKnobs &k, RunConfig &rc);

// 1 for the quick tier, 2 for thorough: generators widen their ranges (more tasks, longer
// programs, larger knobs) in half of the runs of a thorough check.
int tier_scale();

}  // namespace vsim
