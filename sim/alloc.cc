// Allocator seam of the simulator.
//
// Which address a new object gets is a source of nondeterminism some properties depend on:
// code that compares addresses (tokens, registry keys, ABA-prone compare-exchange loops) only
// misbehaves when a freed address is handed out again while a stale reference to it is still
// around. Under AddressSanitizer freed blocks sit in a quarantine, so that never happens, and
// with the system allocator it depends on the allocator's state. This file replaces the
// replaceable global operator new/delete of every engine binary:
//
//  * policy 0 (default): straight to malloc/free - the sanitizer's quarantine applies;
//  * policy 1 (knob alloc_lifo of a case): a freed block of up to kMaxSize bytes is kept
//    on a per-size LIFO list and the next allocation of exactly that size gets it back, i.e.
//    immediate address reuse, the most adversarial legal behaviour of an allocator. A block
//    on a list is poisoned for the sanitizer, so a use after free is still reported
//    (as use-after-poison); it is unpoisoned when handed out again.
//
// The lists are drained into free() at the end of every run, so runs stay independent and
// the policy is a property of one case (replayed with it). Reuse order is a pure function of
// the allocation/free sequence, which the scheduler makes deterministic.
//
// Compiled WITHOUT the shim prefix: it uses the real atomics.
#include <pthread.h>
#include <malloc.h>
#include <atomic>
#include <cstdint>
#include <cstdlib>
#include <new>

#if defined(__SANITIZE_ADDRESS__)
#  include <sanitizer/asan_interface.h>
#else
#  define ASAN_POISON_MEMORY_REGION(a, s) ((void)(a), (void)(s))
#  define ASAN_UNPOISON_MEMORY_REGION(a, s) ((void)(a), (void)(s))
#endif

namespace
{
constexpr size_t kMaxSize = 512;
struct List
{
  void **items;
  uint32_t n, cap;
};
List g_lists[kMaxSize + 1];
std::atomic_flag g_lock = ATOMIC_FLAG_INIT;
std::atomic<int> g_lifo{0};
std::atomic<uint64_t> g_reused{0};

struct Guard
{
  Guard()
  {
    while (g_lock.test_and_set(std::memory_order_acquire))
    {
    }
  }
  ~Guard() { g_lock.clear(std::memory_order_release); }
};

// fork(): the child must not inherit the list lock in the locked state (it may have been
// taken by a thread that does not exist there). Registered at start-up, i.e. before any at-fork
// handler of the code under test: taken after their prepare handlers ran, released before their
// parent/child handlers run, so those may allocate.
void fork_lock()
{
  while (g_lock.test_and_set(std::memory_order_acquire))
  {
  }
}
void fork_unlock()
{
  g_lock.clear(std::memory_order_release);
}
struct ForkInit
{
  ForkInit() { pthread_atfork(fork_lock, fork_unlock, fork_unlock); }
} g_fork_init;

void *take(size_t n)
{
  Guard g;
  List &l = g_lists[n];
  if (!l.n)
    return nullptr;
  void *p = l.items[--l.n];
  ASAN_UNPOISON_MEMORY_REGION(p, n);
  g_reused.fetch_add(1, std::memory_order_relaxed);
  return p;
}

bool give(void *p)
{
  size_t n = malloc_usable_size(p);  // the requested size under the sanitizer
  if (n == 0 || n > kMaxSize)
    return false;
  Guard g;
  List &l = g_lists[n];
  if (l.n == l.cap)
  {
    uint32_t cap = l.cap ? l.cap * 2 : 64;
    void **items = static_cast<void **>(realloc(l.items, cap * sizeof(void *)));
    if (!items)
      return false;
    l.items = items;
    l.cap   = cap;
  }
  ASAN_POISON_MEMORY_REGION(p, n);
  l.items[l.n++] = p;
  return true;
}

void *alloc(size_t n)
{
  if (!n)
    n = 1;
  if (n <= kMaxSize && g_lifo.load(std::memory_order_relaxed))
    if (void *p = take(n))
      return p;
  return malloc(n);
}

void dealloc(void *p) noexcept
{
  if (!p)
    return;
  if (g_lifo.load(std::memory_order_relaxed) && give(p))
    return;
  free(p);
}
}  // namespace

namespace vsim
{
void alloc_begin_run(bool lifo)
{
  g_reused.store(0);
  g_lifo.store(lifo ? 1 : 0);
}
// returns the number of allocations of this run that were given a just-freed address
uint64_t alloc_end_run()
{
  g_lifo.store(0);
  Guard g;
  for (size_t n = 0; n <= kMaxSize; ++n)
  {
    List &l = g_lists[n];
    while (l.n)
    {
      void *p = l.items[--l.n];
      ASAN_UNPOISON_MEMORY_REGION(p, n);
      free(p);
    }
  }
  return g_reused.load();
}
}  // namespace vsim

void *operator new(size_t n)
{
  void *p = alloc(n);
  if (!p)
    throw std::bad_alloc();
  return p;
}
void *operator new[](size_t n)
{
  void *p = alloc(n);
  if (!p)
    throw std::bad_alloc();
  return p;
}
void *operator new(size_t n, const std::nothrow_t &) noexcept
{
  return alloc(n);
}
void *operator new[](size_t n, const std::nothrow_t &) noexcept
{
  return alloc(n);
}
void operator delete(void *p) noexcept
{
  dealloc(p);
}
void operator delete[](void *p) noexcept
{
  dealloc(p);
}
void operator delete(void *p, size_t) noexcept
{
  dealloc(p);
}
void operator delete[](void *p, size_t) noexcept
{
  dealloc(p);
}
void operator delete(void *p, const std::nothrow_t &) noexcept
{
  dealloc(p);
}
void operator delete[](void *p, const std::nothrow_t &) noexcept
{
  dealloc(p);
}
