// vsim_core.cc - deterministic scheduler, simulated clock, decision stream.
// Compiled WITHOUT vsim_prefix.h: uses the real primitives.
#include "vsim.h"
#include "rng.h"

#include <linux/futex.h>
#include <pthread.h>
#include <sys/syscall.h>
#include <unistd.h>
#include <algorithm>
#include <atomic>
#include <chrono>
#include <climits>
#include <cstdio>
#include <cstdlib>
#include <cstring>
#include <system_error>

extern "C" char __executable_start;
namespace vsim
{
namespace
{
enum
{
  RUNNABLE = 0,
  BLOCKED  = 1,
  DONE     = 2
};
enum
{
  W_NONE = 0,
  W_MUTEX,
  W_CV,
  W_JOIN,
  W_SLEEP,
  W_STALL
};

struct Task
{
  int id = 0;
  pthread_t th{};
  std::function<void()> fn;
  int st           = RUNNABLE;
  int wkind        = W_NONE;
  const void *wobj = nullptr;
  int64_t deadline = -1;
  bool timed_out   = false;
  std::atomic<uint32_t> baton{0};
  int64_t prio = 0;
  bool harness = false;
  bool in_op   = false;
  uint64_t stall_until = 0;
  uint64_t npoints     = 0;
  uint64_t ntimer      = 0;  // W_STALL: released when S.points reaches this
  int guard_depth      = 0;  // inside the initialiser of a function-local static (real lock held)
  int cp               = 0;  // call-boundary preemption enabled while cp + (harness ? 0 : 1) > 0
};

struct Sim
{
  bool running = false;
  RunConfig cfg;
  Rng rng;
  Rng ent;
  std::vector<Task *> tasks;
  Task *cur           = nullptr;
  int live            = 0;
  uint64_t points     = 0;
  uint64_t switches   = 0;
  uint64_t sw_in_op   = 0;
  uint64_t draws      = 0;
  uint64_t hash       = 0;
  uint64_t sig        = 0;
  int64_t now         = 0;
  int64_t sys_off     = 0;
  int64_t min_deadline = INT64_MAX;
  uint32_t next_obj   = 1;
  bool drain          = false;
  int64_t drain_start = 0;
  int consec          = 0;
  size_t replay_pos   = 0;
  std::vector<std::pair<uint32_t, uint32_t>> rec;
  uint64_t fired[D_NDRAWS] = {};
  uint64_t calls = 0;
  int64_t call_left = 0;
  std::vector<void *> call_sites;
  uint64_t timer_jumps     = 0;
  // strategy state
  std::vector<uint64_t> pct_points;
  int64_t pct_low = 0;
  int burst_left  = 0;
  int avoid_left  = 0;
  int stalls      = 0;
  int nstalled    = 0;
  bool solo       = false;  // forked child of a run: the calling task is the only one left
  std::atomic<uint32_t> done_futex{0};
};

Sim S;
thread_local Task *tl = nullptr;
FatalFn g_fatal       = nullptr;
SharedTrace *g_shared = nullptr;
std::vector<std::pair<std::string, uint64_t>> g_probes;

void futex_wait(std::atomic<uint32_t> *a, uint32_t val)
{
  syscall(SYS_futex, reinterpret_cast<uint32_t *>(a), FUTEX_WAIT_PRIVATE, val, nullptr, nullptr, 0);
}
void futex_wake(std::atomic<uint32_t> *a)
{
  syscall(SYS_futex, reinterpret_cast<uint32_t *>(a), FUTEX_WAKE_PRIVATE, 1, nullptr, nullptr, 0);
}
void park(Task *t)
{
  while (t->baton.load(std::memory_order_acquire) == 0)
    futex_wait(&t->baton, 0);
  t->baton.store(0, std::memory_order_relaxed);
}
void wake(Task *t)
{
  t->baton.store(1, std::memory_order_release);
  futex_wake(&t->baton);
}

[[noreturn]] void fatal(const char *cls, const char *detail)
{
  if (g_fatal)
    g_fatal(cls, detail);
  fprintf(stderr, "vsim fatal: %s: %s\n", cls, detail);
  fflush(stderr);
  _exit(70);
}

inline void hash_ev(int tid, int kind, uint32_t obj)
{
  uint64_t v = (uint64_t)(tid + 1) * 1000003ull + (uint64_t)kind * 10007ull + obj;
  S.hash     = (S.hash ^ v) * 0x100000001b3ull;
  static const char *pt = getenv("VSIM_POINTTRACE");
  if (pt)
  {
    static FILE *f = fopen(pt, "w");
    if (f)
    {
      fprintf(f, "%d %d %u %llu\n", tid, kind, obj, (unsigned long long)S.calls);
      fflush(f);
    }
  }
}

void mirror_decision(uint32_t idx, uint32_t v)
{
  if (!g_shared)
    return;
  uint32_t n = g_shared->n;
  if (n < g_shared->cap)
  {
    g_shared->pairs[2 * n]     = idx;
    g_shared->pairs[2 * n + 1] = v;
    g_shared->n                = n + 1;
  }
}

// One draw from the decision stream. `strategy` computes the value when
// searching; in replay the recorded value (default 0) is used instead.
template <class F>
uint32_t decide(Draw kind, uint32_t n, F strategy)
{
  uint32_t idx = (uint32_t)S.draws++;
  uint32_t v   = 0;
  if (S.cfg.replay)
  {
    auto &d = S.cfg.decisions;
    while (S.replay_pos < d.size() && d[S.replay_pos].first < idx)
      ++S.replay_pos;
    if (S.replay_pos < d.size() && d[S.replay_pos].first == idx)
      v = d[S.replay_pos].second;
    v = n ? v % n : 0;
  }
  else
  {
    v = strategy();
    if (v >= n)
      v = n ? v % n : 0;
  }
  if (v)
  {
    S.rec.emplace_back(idx, v);
    mirror_decision(idx, v);
    if (kind != D_SCHED && kind != D_NOTIFY_ONE)
      S.fired[kind]++;
  }
  return v;
}

void recompute_min_deadline()
{
  int64_t m = INT64_MAX;
  for (Task *t : S.tasks)
    if (t->st == BLOCKED && t->deadline >= 0 && t->deadline < m)
      m = t->deadline;
  S.min_deadline = m;
}

void make_runnable(Task *t, bool timed_out)
{
  if (timed_out)
    t->ntimer++;
  t->st        = RUNNABLE;
  t->timed_out = timed_out;
  t->wkind     = W_NONE;
  t->wobj      = nullptr;
  t->deadline  = -1;
}

void expire_timers()
{
  if (S.nstalled)
    for (Task *t : S.tasks)
      if (t->st == BLOCKED && t->wkind == W_STALL && t->stall_until <= S.points)
      {
        make_runnable(t, false);
        S.nstalled--;
      }
  if (S.min_deadline > S.now)
    return;
  for (Task *t : S.tasks)
    if (t->st == BLOCKED && t->deadline >= 0 && t->deadline <= S.now)
      make_runnable(t, true);
  recompute_min_deadline();
}

// Chooses the task to run next. `me` may be null / not runnable.
Task *pick(Task *me, Kind k, bool yielding)
{
  Task *opts[128];
  int n        = 0;
  int N        = (int)S.tasks.size();
  bool me_ok   = me && me->st == RUNNABLE;
  bool demote  = yielding || S.consec >= S.cfg.quantum;
  int start    = me ? me->id : 0;
  if (me_ok && !demote)
    opts[n++] = me;
  for (int i = 1; i <= N && n < 127; ++i)
  {
    Task *t = S.tasks[(start + i) % N];
    if (t != me && t->st == RUNNABLE)
      opts[n++] = t;
  }
  if (me_ok && demote)
    opts[n++] = me;
  if (n == 0)
    return nullptr;
  if (n == 1)
    return opts[0];
  if (S.drain)
    return opts[0];
  bool cont_ok = (opts[0] == me);  // option 0 means "keep running"
  int nsel     = (me_ok && demote) ? n - 1 : n;  // never select a demoted caller by strategy
  uint32_t c   = decide(D_SCHED, (uint32_t)n, [&]() -> uint32_t {
    switch (S.cfg.strategy)
    {
      default:
      case S_RW: {
        if (cont_ok)
          return S.rng.chance(S.cfg.rw_p) ? 1 + (uint32_t)S.rng.below(n - 1) : 0;
        return (uint32_t)S.rng.below(nsel);
      }
      case S_PCT: {
        if (me && demote)
          me->prio = --S.pct_low;
        while (!S.pct_points.empty() && S.pct_points.back() <= S.points)
        {
          S.pct_points.pop_back();
          if (me)
            me->prio = --S.pct_low;
        }
        int best = 0;
        for (int i = 1; i < nsel; ++i)
          if (opts[i]->prio > opts[best]->prio)
            best = i;
        return (uint32_t)best;
      }
      case S_BURST: {
        if (cont_ok && S.burst_left > 0)
        {
          --S.burst_left;
          return 0;
        }
        // geometric quantum with the configured mean
        int q = 1;
        double pcont = 1.0 - 1.0 / (S.cfg.burst_mean > 1 ? S.cfg.burst_mean : 2);
        while (q < 1000 && S.rng.real() < pcont)
          ++q;
        S.burst_left = q;
        if (cont_ok)
          return 1 + (uint32_t)S.rng.below(n - 1);
        return (uint32_t)S.rng.below(nsel);
      }
      case S_DELAY: {
        Task *victim = S.tasks[S.cfg.delay_victim % N];
        if (cont_ok && me == victim && (S.cfg.delay_kind == 0 || S.cfg.delay_kind == (int)k))
        {
          if (S.rng.chance(0.75))
          {
            S.avoid_left = 1 + (int)S.rng.below(40);
            return 1 + (uint32_t)S.rng.below(n - 1);
          }
          return 0;
        }
        uint32_t c2;
        if (cont_ok)
          c2 = S.rng.chance(0.05) ? 1 + (uint32_t)S.rng.below(n - 1) : 0;
        else
          c2 = (uint32_t)S.rng.below(nsel);
        if (S.avoid_left > 0)
        {
          --S.avoid_left;
          if (opts[c2] == victim)
          {
            // take the next option that is not the victim
            for (int i = 0; i < nsel; ++i)
              if (opts[i] != victim)
              {
                c2 = (uint32_t)i;
                break;
              }
          }
        }
        return c2;
      }
    }
  });
  return opts[c];
}

void switch_to(Task *me, Task *next)
{
  if (next == me)
    return;
  S.switches++;
  if (me && me->in_op && me->st != DONE)
    S.sw_in_op++;
  S.sig    = (S.sig ^ ((uint64_t)(me ? me->id + 1 : 0) * 257 + next->id + 1 + (S.points << 20))) *
          0x100000001b3ull;
  S.consec = 0;
  S.cur    = next;
  wake(next);
  if (me && me->st != DONE)
    park(me);
}

// Finds somebody to run when `me` cannot continue; jumps the clock when idle.
Task *next_runnable(Task *me)
{
  for (;;)
  {
    Task *next = pick(me, K_TASK_END, false);
    if (next)
      return next;
    if (S.min_deadline == INT64_MAX && S.nstalled)
    {
      // nothing else can run and no timer is pending: the stall ends now
      for (Task *t : S.tasks)
        if (t->st == BLOCKED && t->wkind == W_STALL)
          t->stall_until = 0;
      expire_timers();
      continue;
    }
    if (S.min_deadline == INT64_MAX)
    {
      char buf[512];
      int off = snprintf(buf, sizeof buf, "all %d live tasks blocked, no timer pending:", S.live);
      for (Task *t : S.tasks)
        if (t->st == BLOCKED && off < 480)
          off += snprintf(buf + off, sizeof buf - off, " t%d(w%d)", t->id, t->wkind);
      fatal("deadlock", buf);
    }
    if (S.min_deadline > S.now)
      S.now = S.min_deadline;
    S.timer_jumps++;
    S.points++;
    if (S.drain && S.points > S.cfg.budget1 + S.cfg.budget2)
      fatal("livelock", "point budget exhausted in drain mode (timer loop)");
    expire_timers();
  }
}

void block(Task *me, int wkind, const void *obj, int64_t deadline)
{
  if (S.solo)
    _exit(99);  // nobody is left to release the caller
  me->st        = BLOCKED;
  me->wkind     = wkind;
  me->wobj      = obj;
  me->deadline  = deadline;
  me->timed_out = false;
  if (deadline >= 0 && deadline < S.min_deadline)
    S.min_deadline = deadline;
  Task *next = next_runnable(me);
  if (next == me)
    return;  // own timer expired during an idle jump
  switch_to(me, next);
}

void finish(Task *me)
{
  hash_ev(me->id, K_TASK_END, 0);
  me->st = DONE;
  for (Task *t : S.tasks)
    if (t->st == BLOCKED && t->wkind == W_JOIN && t->wobj == me)
      make_runnable(t, false);
  S.live--;
  if (S.live == 0)
  {
    S.running = false;
    S.done_futex.store(1, std::memory_order_release);
    futex_wake(&S.done_futex);
    return;
  }
  Task *next = next_runnable(me);
  S.switches++;
  S.consec = 0;
  S.cur    = next;
  wake(next);
}

void *thread_main(void *arg)
{
  Task *t = static_cast<Task *>(arg);
  tl      = t;
  park(t);
  hash_ev(t->id, K_TASK_BEGIN, 0);
  try
  {
    t->fn();
  }
  catch (const std::exception &e)
  {
    fatal("exception", e.what());
  }
  catch (...)
  {
    fatal("exception", "unknown exception escaped a simulated task");
  }
  t->fn = nullptr;
  finish(t);
  tl = nullptr;
  return nullptr;
}

Task *create_task(std::function<void()> fn)
{
  Task *t = new Task;
  t->id   = (int)S.tasks.size();
  t->fn   = std::move(fn);
  t->prio = (int64_t)(S.rng.next() >> 2);  // pct initial priority; harmless otherwise
  S.tasks.push_back(t);
  S.live++;
  pthread_attr_t at;
  pthread_attr_init(&at);
  pthread_attr_setstacksize(&at, 1 << 20);
  int rc = pthread_create(&t->th, &at, thread_main, t);
  pthread_attr_destroy(&at);
  if (rc != 0)
  {
    fprintf(stderr, "vsim: pthread_create failed: %d\n", rc);
    _exit(71);
  }
  return t;
}

}  // namespace

void set_fatal_handler(FatalFn fn)
{
  g_fatal = fn;
}
void set_shared_trace(SharedTrace *st)
{
  g_shared = st;
}

RunResult snapshot()
{
  RunResult r;
  r.points      = S.points;
  r.switches    = S.switches;
  r.draws       = S.draws;
  r.trace_hash  = S.hash;
  r.switch_sig  = S.sig;
  r.sim_time_ns = S.now;
  r.tasks       = (int)S.tasks.size();
  r.drained     = S.drain;
  r.timer_jumps = S.timer_jumps;
  r.calls       = S.calls;
  for (void *p : S.call_sites)
    r.call_sites.push_back((uint64_t)((char *)p - &__executable_start));
  for (int i = 0; i < D_NDRAWS; ++i)
    r.fired[i] = S.fired[i];
  r.decisions = S.rec;
  return r;
}

RunResult run(const RunConfig &cfg, const std::function<void()> &root)
{
  S.cfg = cfg;
  S.rng.reseed(cfg.sched_seed);
  S.ent.reseed(cfg.entropy_seed);
  S.tasks.clear();
  S.cur          = nullptr;
  S.live         = 0;
  S.points       = 0;
  S.switches     = 0;
  S.sw_in_op     = 0;
  S.draws        = 0;
  S.hash         = 0xcbf29ce484222325ull;
  S.sig          = 0xcbf29ce484222325ull;
  S.now          = 1000000000ll;  // steady clock starts at 1 s
  S.sys_off      = 0;
  S.min_deadline = INT64_MAX;
  S.next_obj     = 1;
  S.drain        = false;
  S.consec       = 0;
  S.replay_pos   = 0;
  S.rec.clear();
  memset(S.fired, 0, sizeof S.fired);
  S.timer_jumps = 0;
  S.calls       = 0;
  S.call_left   = cfg.call_period;
  S.call_sites.clear();
  S.pct_points.clear();
  S.pct_low    = 0;
  S.burst_left = 0;
  S.avoid_left = 0;
  S.stalls     = 0;
  S.nstalled   = 0;
  S.solo       = false;
  S.done_futex.store(0);
  if (cfg.strategy == S_PCT)
  {
    for (int i = 0; i < cfg.pct_depth; ++i)
      S.pct_points.push_back(1 + S.rng.below(cfg.pct_len > 1 ? cfg.pct_len : 2));
    std::sort(S.pct_points.begin(), S.pct_points.end(), std::greater<uint64_t>());
  }
  if (g_shared)
  {
    g_shared->n      = 0;
    g_shared->points = 0;
    g_shared->hash   = 0;
  }
  S.running   = true;
  Task *r     = create_task(root);
  r->harness  = true;
  S.cur       = r;
  wake(r);
  // Watchdog: a task that spins or blocks in code without schedule points (an endless loop in
  // the code under test, a real lock) never returns the baton, so neither the point budget nor
  // the deadlock detection can see it. The driver thread notices that the point counter has
  // stopped while the process keeps burning CPU (5 s; the typical gap between two points is
  // microseconds) or for 60 s of wall time, and reports a liveness violation.
  {
    auto cpu_now = []() {
      timespec ts;
      clock_gettime(CLOCK_PROCESS_CPUTIME_ID, &ts);
      return (int64_t)ts.tv_sec * 1000000000ll + ts.tv_nsec;
    };
    auto wall_now = []() {
      timespec ts;
      clock_gettime(CLOCK_MONOTONIC, &ts);
      return (int64_t)ts.tv_sec * 1000000000ll + ts.tv_nsec;
    };
    uint64_t last = __atomic_load_n(&S.points, __ATOMIC_RELAXED);
    int64_t cpu0 = cpu_now(), wall0 = wall_now();
    while (S.done_futex.load(std::memory_order_acquire) == 0)
    {
      timespec to{0, 250000000};
      syscall(SYS_futex, reinterpret_cast<uint32_t *>(&S.done_futex), FUTEX_WAIT_PRIVATE, 0, &to,
              nullptr, 0);
      if (S.done_futex.load(std::memory_order_acquire) != 0)
        break;
      uint64_t p = __atomic_load_n(&S.points, __ATOMIC_RELAXED);
      if (p != last)
      {
        last  = p;
        cpu0  = cpu_now();
        wall0 = wall_now();
        continue;
      }
      if (cpu_now() - cpu0 > 5000000000ll || wall_now() - wall0 > 60000000000ll)
        fatal("hang", "a task made no schedule point for 5 s of CPU time / 60 s of wall time "
                      "(endless loop or real blocking in code without schedule points)");
    }
  }
  for (Task *t : S.tasks)
    pthread_join(t->th, nullptr);
  RunResult res = snapshot();
  for (Task *t : S.tasks)
    delete t;
  S.tasks.clear();
  return res;
}

bool in_sim() noexcept
{
  return tl != nullptr;
}
int self() noexcept
{
  return tl ? tl->id : -1;
}
uint64_t seq() noexcept
{
  return S.points;
}
uint32_t new_obj_id() noexcept
{
  return tl ? S.next_obj++ : 0;
}
void mark_harness_task(bool h) noexcept
{
  if (tl)
    tl->harness = h;
}
void in_operation(bool on) noexcept
{
  if (tl)
    tl->in_op = on;
}
uint64_t switches_in_op() noexcept
{
  return S.sw_in_op;
}
uint64_t self_points() noexcept
{
  return tl ? tl->npoints : 0;
}
uint64_t self_timer_wakes() noexcept
{
  return tl ? tl->ntimer : 0;
}

static void point_impl(Kind k, uint32_t obj, bool yielding) noexcept
{
  Task *me = tl;
  if (!me || S.solo)
    return;
  S.points++;
  S.consec++;
  me->npoints++;
  S.now += S.cfg.cost_ns;
  hash_ev(me->id, k, obj);
  if (g_shared)
  {
    g_shared->points = S.points;
    g_shared->hash   = S.hash;
  }
  expire_timers();
  if (!S.drain)
  {
    if (S.points > S.cfg.budget1)
    {
      S.drain       = true;
      S.drain_start = S.now;
    }
  }
  else if (S.points > S.cfg.budget1 + S.cfg.budget2)
  {
    fatal("livelock", "point budget exhausted in drain mode");
  }
  if (!S.drain)
  {
    if (S.cfg.p_cv_spurious > 0)
    {
      Task *w[64];
      int nw = 0;
      for (Task *t : S.tasks)
        if (t->st == BLOCKED && t->wkind == W_CV && nw < 64)
          w[nw++] = t;
      if (nw)
      {
        uint32_t c = decide(D_CV_SPURIOUS, (uint32_t)nw + 1, [&]() -> uint32_t {
          return S.rng.chance(S.cfg.p_cv_spurious) ? 1 + (uint32_t)S.rng.below(nw) : 0;
        });
        if (c)
          make_runnable(w[c - 1], false);
      }
    }
    if (S.cfg.p_stall > 0 && me->harness && me->id != 0 && S.stalls < S.cfg.max_stalls &&
        k != K_TASK_BEGIN)
    {
      uint32_t c = decide(D_STALL, 2,
                          [&]() -> uint32_t { return S.rng.chance(S.cfg.p_stall) ? 1 : 0; });
      if (c)
      {
        S.stalls++;
        S.nstalled++;
        me->stall_until = S.points + (uint64_t)S.cfg.stall_points;
        block(me, W_STALL, nullptr, -1);
        return;
      }
    }
  }
  Task *next = pick(me, k, yielding);
  if (next != me)
    switch_to(me, next);
}

void point(Kind k, uint32_t obj) noexcept
{
  point_impl(k, obj, false);
}

// Call-boundary preemption. The SDK and the scenarios are compiled with
// -finstrument-functions (functions defined under /usr and /verif excluded), so every entry to
// and exit from a function *defined in the repository* - including the inline functions of
// the API headers - calls one of the two hooks below. Each cfg.call_period-th boundary crossed
// by the running task is a candidate; a candidate becomes a schedule point at which the
// caller is demoted (somebody else runs if anybody can) when the decision stream says so.
// This is what makes code between two synchronisation operations interruptible: a narrowed
// or removed lock around plain data is then observable by its effect.
// Never inside the initialiser of a function-local static: the C++ runtime holds a real
// lock there, a second task entering the same initialiser would block for real.
static void call_boundary(void *fn) noexcept
{
  Task *me = tl;
  if (!me || S.cfg.call_period <= 0 || S.cur != me || S.solo)
    return;
  // only while the task executes code of the repository: harness tasks between entering and
  // leaving an API operation (hz::InOp), tasks created by the SDK always, minus harness
  // callbacks (hz::HarnessCode). One-time initialisation (function-local statics) is neither
  // counted nor preempted, so the count does not depend on what ran earlier in the process.
  if (me->cp + (me->harness ? 0 : 1) <= 0 || me->guard_depth > 0)
    return;
  S.calls++;
  static FILE *dbg = getenv("VSIM_CALLTRACE") ? fopen(getenv("VSIM_CALLTRACE"), "w") : nullptr;
  if (dbg)
  {
    if (S.calls == 1)
      fprintf(dbg, "RUN\n");
    fprintf(dbg, "%d %lx\n", me->id, (unsigned long)((char *)fn - &__executable_start));
  }
  if (--S.call_left > 0)
    return;
  S.call_left = S.cfg.call_period;
  if (S.drain || me->st != RUNNABLE)
    return;
  uint32_t c = decide(D_CALL, 2,
                      [&]() -> uint32_t { return S.rng.chance(S.cfg.p_call) ? 1 : 0; });
  if (!c)
    return;
  S.call_sites.push_back(fn);
  point_impl(K_CALL, (uint32_t)S.calls, true);
}
int call_points_add(int delta) noexcept
{
  if (!tl)
    return 0;
  tl->cp += delta;
  return tl->cp;
}
int call_points_set(int v) noexcept
{
  if (!tl)
    return 0;
  int old = tl->cp;
  tl->cp  = v;
  return old;
}
void static_guard(int delta) noexcept
{
  if (tl)
    tl->guard_depth += delta;
}

void yield_now() noexcept
{
  point_impl(K_YIELD, 0, true);
}

void mutex_lock(MutexS &m, bool recursive) noexcept
{
  Task *me = tl;
  point(K_MUTEX_LOCK, m.id);
  if (recursive && m.owner == me->id)
  {
    m.depth++;
    return;
  }
  while (m.owner != -1)
  {
    m.nwait++;
    block(me, W_MUTEX, &m, -1);
    m.nwait--;
  }
  m.owner = me->id;
  m.depth = 1;
}

bool mutex_trylock(MutexS &m, bool recursive) noexcept
{
  Task *me = tl;
  point(K_MUTEX_TRYLOCK, m.id);
  if (recursive && m.owner == me->id)
  {
    m.depth++;
    return true;
  }
  if (m.owner != -1)
    return false;
  m.owner = me->id;
  m.depth = 1;
  return true;
}

static void release_mutex(MutexS &m)
{
  m.owner = -1;
  m.depth = 0;
  if (m.nwait)
    for (Task *t : S.tasks)
      if (t->st == BLOCKED && t->wkind == W_MUTEX && t->wobj == &m)
        make_runnable(t, false);
}

void mutex_unlock(MutexS &m) noexcept
{
  Task *me = tl;
  point(K_MUTEX_UNLOCK, m.id);
  if (m.owner != me->id)
    fatal("harness_error", "unlock of a mutex the task does not own");
  if (--m.depth > 0)
    return;
  release_mutex(m);
  // second point after the release: what the task does next without the lock can be
  // interleaved with the task that takes it
  point(K_MUTEX_UNLOCK, m.id | 0x80000000u);
}

bool cv_wait(CvS &cv, MutexS &m, int64_t deadline_ns) noexcept
{
  Task *me = tl;
  point(K_CV_WAIT, cv.id);
  if (m.owner != me->id)
    fatal("harness_error", "condition_variable wait without owning the mutex");
  cv.waiters.push_back(me->id);
  int depth = m.depth;
  release_mutex(m);
  block(me, W_CV, &cv, deadline_ns);
  bool to = me->timed_out;
  for (size_t i = 0; i < cv.waiters.size(); ++i)
    if (cv.waiters[i] == me->id)
    {
      cv.waiters.erase(cv.waiters.begin() + i);
      break;
    }
  while (m.owner != -1)
  {
    m.nwait++;
    block(me, W_MUTEX, &m, -1);
    m.nwait--;
  }
  m.owner = me->id;
  m.depth = depth;
  return to;
}

void cv_notify(CvS &cv, bool all) noexcept
{
  point(K_CV_NOTIFY, cv.id);
  // keep only tasks that are still blocked on this cv (a timed-out or
  // spuriously woken waiter removes itself only when it runs again)
  std::vector<int> &w = cv.waiters;
  size_t j            = 0;
  for (size_t i = 0; i < w.size(); ++i)
  {
    Task *t = S.tasks[w[i]];
    if (t->st == BLOCKED && t->wkind == W_CV && t->wobj == &cv)
      w[j++] = w[i];
  }
  w.resize(j);
  if (w.empty())
    return;
  if (all)
  {
    for (int id : w)
      make_runnable(S.tasks[id], false);
    w.clear();
    recompute_min_deadline();
    return;
  }
  uint32_t c = 0;
  if (w.size() > 1)
    c = decide(D_NOTIFY_ONE, (uint32_t)w.size(),
               [&]() -> uint32_t { return (uint32_t)S.rng.below(w.size()); });
  make_runnable(S.tasks[w[c]], false);
  w.erase(w.begin() + c);
  recompute_min_deadline();
}

int task_spawn(std::function<void()> fn)
{
  Task *me = tl;
  point(K_THREAD_CREATE, 0);
  if (!S.drain && S.cfg.p_spawn_fail > 0 && me && !me->harness)
  {
    uint32_t c = decide(D_SPAWN_FAIL, 2,
                        [&]() -> uint32_t { return S.rng.chance(S.cfg.p_spawn_fail) ? 1 : 0; });
    if (c)
      throw std::system_error(std::make_error_code(std::errc::resource_unavailable_try_again),
                              "vsim: simulated thread creation failure");
  }
  Task *t = create_task(std::move(fn));
  return t->id;
}

void task_join(int tid) noexcept
{
  Task *me = tl;
  point(K_THREAD_JOIN, 0);
  Task *t = S.tasks[tid];
  while (t->st != DONE)
    block(me, W_JOIN, t, -1);
}

void sleep_until_ns(int64_t deadline_ns) noexcept
{
  Task *me = tl;
  point(K_SLEEP, 0);
  if (deadline_ns <= S.now)
    return;
  block(me, W_SLEEP, nullptr, deadline_ns);
}

void sleep_for_ns(int64_t d) noexcept
{
  if (d < 0)
    d = 0;
  int64_t dl = (d > INT64_MAX / 4) ? INT64_MAX / 2 : S.now + d;
  sleep_until_ns(dl);
}

int64_t steady_now_ns() noexcept
{
  if (!tl)
    return std::chrono::duration_cast<std::chrono::nanoseconds>(
               std::chrono::steady_clock::now().time_since_epoch())
        .count();
  if (S.cfg.clock_strict)
    S.now += 1;
  return S.now;
}

static const int64_t kSysBase = 1700000000ll * 1000000000ll;

int64_t system_now_ns() noexcept
{
  if (!tl)
    return std::chrono::duration_cast<std::chrono::nanoseconds>(
               std::chrono::system_clock::now().time_since_epoch())
        .count();
  if (S.cfg.clock_strict)
    S.now += 1;
  if (!S.drain && S.cfg.p_sysjump > 0)
  {
    static const int64_t jumps[] = {0,           3600000000000ll, -3600000000000ll, 1000000ll,
                                    -1000000ll,  10000000000ll,   -10000000000ll};
    uint32_t c = decide(D_SYSJUMP, 7, [&]() -> uint32_t {
      return S.rng.chance(S.cfg.p_sysjump) ? 1 + (uint32_t)S.rng.below(6) : 0;
    });
    S.sys_off += jumps[c];
  }
  return kSysBase + S.now + S.sys_off;
}

int64_t peek_now_ns() noexcept
{
  return S.now;
}

// Simulated fork(): the calling task forks the process for real. In the child it is the only
// thread left; it keeps running without schedule points (nothing else can run) and must not
// block. Returns what fork() returned.
int fork_task() noexcept
{
  fflush(stdout);
  fflush(stderr);
  // the at-fork handlers of the code under test run inside fork(), in the child too: the
  // child must already be in solo mode then (the allocator's list lock has at-fork handlers of
  // its own, sim/alloc.cc)
  S.solo = true;
  int pid = (int)::fork();
  if (pid == 0)
    alarm(10);
  else
    S.solo = false;
  if (pid == 0)
  {
  }
  else if (pid > 0 && tl)
  {
    // what the child's random_device reads is entropy the parent never sees again
    for (int i = 0; i < 64; ++i)
      S.ent.next();
  }
  return pid;
}

uint64_t entropy() noexcept
{
  if (!tl)
  {
    static uint64_t x = 0x1234567;
    return splitmix64(x);
  }
  return S.ent.next();
}

bool cas_spurious() noexcept
{
  if (!tl || S.drain || S.cfg.p_cas_spurious <= 0)
    return false;
  return decide(D_CAS_SPURIOUS, 2, [&]() -> uint32_t {
           return S.rng.chance(S.cfg.p_cas_spurious) ? 1 : 0;
         }) != 0;
}

void probe(const char *name) noexcept
{
  for (auto &p : g_probes)
    if (p.first == name)
    {
      p.second++;
      return;
    }
  g_probes.emplace_back(name, 1);
}
const std::vector<std::pair<std::string, uint64_t>> &probes()
{
  return g_probes;
}
void reset_probes()
{
  g_probes.clear();
}

}  // namespace vsim

extern "C" {
void __cyg_profile_func_enter(void *fn, void *) { vsim::call_boundary(fn); }
void __cyg_profile_func_exit(void *fn, void *) { vsim::call_boundary(fn); }
// function-local static initialisation (linked with -Wl,--wrap): no call-boundary preemption
// while the runtime's guard lock is held
int __real___cxa_guard_acquire(void *);
void __real___cxa_guard_release(void *);
void __real___cxa_guard_abort(void *);
int __wrap___cxa_guard_acquire(void *g)
{
  int r = __real___cxa_guard_acquire(g);
  if (r)
    vsim::static_guard(+1);
  return r;
}
void __wrap___cxa_guard_release(void *g)
{
  vsim::static_guard(-1);
  __real___cxa_guard_release(g);
}
void __wrap___cxa_guard_abort(void *g)
{
  vsim::static_guard(-1);
  __real___cxa_guard_abort(g);
}
}
