// vsim.h - interface of the deterministic simulator core.
//
// This header must stay free of the tokens that vsim_prefix.h renames
// (atomic, mutex, thread, ...): it is included both by the core (compiled
// without the prefix) and by every shimmed translation unit.
#pragma once
#include <cstdint>
#include <functional>
#include <string>
#include <utility>
#include <vector>

namespace vsim
{

// Kind of a schedule point. Part of the trace hash.
enum Kind : uint8_t
{
  K_ATOMIC_LOAD = 1,
  K_ATOMIC_STORE,
  K_ATOMIC_RMW,
  K_ATOMIC_CAS,
  K_FLAG,
  K_MUTEX_LOCK,
  K_MUTEX_TRYLOCK,
  K_MUTEX_UNLOCK,
  K_CV_WAIT,
  K_CV_NOTIFY,
  K_THREAD_CREATE,
  K_THREAD_JOIN,
  K_YIELD,
  K_SLEEP,
  K_FUTURE,
  K_HARNESS,     // explicit vsim::yield() in harness code
  K_HARNESS_CS,  // harness yield placed inside an SDK critical section
  K_TASK_BEGIN,
  K_TASK_END,
  K_CALL,  // entry/exit of a function defined in the repository (compiler-inserted hook)
  K_NKINDS
};

// Kinds of draws from the decision stream.
enum Draw : uint8_t
{
  D_SCHED = 0,
  D_CAS_SPURIOUS,
  D_CV_SPURIOUS,
  D_NOTIFY_ONE,
  D_STALL,
  D_SYSJUMP,
  D_SPAWN_FAIL,
  D_CALL,  // preempt the running task at a function boundary of repository code
  D_NDRAWS
};

enum Strategy : int
{
  S_RW = 0,   // random walk with switch probability
  S_PCT,      // priority schedule with d-1 change points
  S_BURST,    // geometric quanta
  S_DELAY,    // preempt one victim task whenever it is about to do one kind of op
  S_NSTRATEGIES
};

struct RunConfig
{
  uint64_t sched_seed   = 1;  // seeds the strategy / fault-firing generator
  uint64_t entropy_seed = 1;  // seeds what random_device returns
  int strategy          = S_RW;
  double rw_p           = 0.1;
  int pct_depth         = 1;     // number of priority change points
  int pct_len           = 400;   // assumed run length for placing change points
  int burst_mean        = 8;
  int delay_victim      = 0;     // task index modulo live tasks
  int delay_kind        = 0;     // Kind the victim is preempted on (0 = any)
  int64_t cost_ns       = 0;     // simulated cost of one schedule point
  bool clock_strict     = true;  // every clock read advances by >= 1 ns
  int quantum           = 64;    // anti-starvation quantum
  uint64_t budget1      = 20000; // points before drain mode
  uint64_t budget2      = 60000; // further points before "livelock"
  int64_t drain_ns      = 3600ll * 1000000000ll * 24;  // simulated time allowed in drain mode
  // fault rates (0 = kind disabled for this run; draw indices depend on the enabled set)
  double p_cas_spurious = 0;
  double p_cv_spurious  = 0;
  double p_stall        = 0;
  int64_t stall_points  = 0;     // a stalled task is not scheduled for this many points
  int max_stalls        = 2;
  double p_sysjump      = 0;
  double p_spawn_fail   = 0;  // only for threads created by non-harness tasks
  // call-boundary preemption: every call_period-th entry/exit of a repository function is a
  // candidate; a candidate becomes a schedule point (caller demoted) with probability p_call
  int call_period = 0;  // 0 = off
  double p_call   = 0;
  // replay: explicit sparse decision stream; strategies are bypassed
  bool replay = false;
  std::vector<std::pair<uint32_t, uint32_t>> decisions;
};

struct RunResult
{
  uint64_t points      = 0;
  uint64_t switches    = 0;
  uint64_t draws       = 0;
  uint64_t trace_hash  = 0;
  uint64_t switch_sig  = 0;
  int64_t sim_time_ns  = 0;
  int tasks            = 0;
  bool drained         = false;  // entered drain mode
  uint64_t fired[D_NDRAWS] = {};
  uint64_t timer_jumps = 0;
  uint64_t calls       = 0;  // function boundaries of repository code crossed by tasks
  std::vector<uint64_t> call_sites;  // functions (offset in the binary) at whose boundary a task was preempted
  std::vector<std::pair<uint32_t, uint32_t>> decisions;  // sparse, non-zero draws
};

// Fatal outcomes are reported through this callback from inside the run (the
// process cannot unwind parked tasks); it must not return.
using FatalFn = void (*)(const char *cls, const char *detail);
void set_fatal_handler(FatalFn fn);
// Optional: memory into which the decision stream is mirrored as it is
// produced (so a parent process can recover it after a crash).
struct SharedTrace
{
  volatile uint32_t n;
  volatile uint64_t points;
  volatile uint64_t hash;
  uint32_t cap;
  uint32_t pairs[1];  // 2*cap entries
};
void set_shared_trace(SharedTrace *st);

// Runs root() as task 0 under the simulator on the calling (real) thread's
// behalf; returns when every task has finished.
RunResult run(const RunConfig &cfg, const std::function<void()> &root);
// Partial result so far; usable from a fatal handler.
RunResult snapshot();

// ---- inside a run -------------------------------------------------------
bool in_sim() noexcept;
int self() noexcept;         // task id, -1 outside
uint64_t seq() noexcept;     // global event sequence number (= points so far)
void point(Kind k, uint32_t obj) noexcept;
inline void yield() noexcept { point(K_HARNESS, 0); }
inline void yield_cs() noexcept { point(K_HARNESS_CS, 0); }
uint32_t new_obj_id() noexcept;
void mark_harness_task(bool is_harness) noexcept;  // spawn-fail only hits non-harness creators
void in_operation(bool on) noexcept;  // harness marks "inside an API operation" (non-trivial switch stat)
uint64_t switches_in_op() noexcept;
uint64_t self_points() noexcept;       // schedule points executed by the calling task
uint64_t self_timer_wakes() noexcept;  // times the calling task was woken by a deadline

struct MutexS
{
  int32_t owner  = -1;
  int32_t depth  = 0;
  uint32_t id    = 0;
  uint32_t nwait = 0;
};
struct CvS
{
  uint32_t id = 0;
  std::vector<int> waiters;
};
void mutex_lock(MutexS &m, bool recursive = false) noexcept;
bool mutex_trylock(MutexS &m, bool recursive = false) noexcept;
void mutex_unlock(MutexS &m) noexcept;
// deadline_ns < 0: none. Returns true on timeout.
bool cv_wait(CvS &cv, MutexS &m, int64_t deadline_ns) noexcept;
void cv_notify(CvS &cv, bool all) noexcept;

// may throw std::system_error(EAGAIN) when the spawn-fail fault fires
int task_spawn(std::function<void()> fn);
void task_join(int tid) noexcept;
void sleep_until_ns(int64_t deadline_ns) noexcept;
void sleep_for_ns(int64_t d_ns) noexcept;
void yield_now() noexcept;

int64_t steady_now_ns() noexcept;
int64_t system_now_ns() noexcept;
int64_t peek_now_ns() noexcept;  // no side effect (for logging / oracles)
uint64_t entropy() noexcept;
int call_points_add(int delta) noexcept;  // call-boundary preemption on (+1) / off (-1) for the calling task
int call_points_set(int v) noexcept;      // returns the previous value
int fork_task() noexcept;  // real fork() of the running task; the child runs alone, without schedule points
bool cas_spurious() noexcept;

// probes: "this rare condition was hit" counters, aggregated by the runner
void probe(const char *name) noexcept;
const std::vector<std::pair<std::string, uint64_t>> &probes();
void reset_probes();

}  // namespace vsim
