// hashmerge - counts distinct 64-bit values over several sorted binary files.
#include <algorithm>
#include <cstdint>
#include <cstdio>
#include <vector>
int main(int argc, char **argv)
{
  std::vector<uint64_t> all;
  for (int i = 1; i < argc; ++i)
  {
    FILE *f = fopen(argv[i], "rb");
    if (!f)
      continue;
    uint64_t buf[4096];
    size_t n;
    while ((n = fread(buf, 8, 4096, f)) > 0)
      all.insert(all.end(), buf, buf + n);
    fclose(f);
  }
  std::sort(all.begin(), all.end());
  all.erase(std::unique(all.begin(), all.end()), all.end());
  printf("%zu\n", all.size());
  return 0;
}
