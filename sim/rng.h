// rng.h - the one pseudo-random generator everything is derived from.
#pragma once
#include <cstdint>

namespace vsim
{
inline uint64_t splitmix64(uint64_t &x)
{
  uint64_t z = (x += 0x9e3779b97f4a7c15ull);
  z          = (z ^ (z >> 30)) * 0xbf58476d1ce4e5b9ull;
  z          = (z ^ (z >> 27)) * 0x94d049bb133111ebull;
  return z ^ (z >> 31);
}

inline uint64_t mix(uint64_t a, uint64_t b)
{
  uint64_t x = a ^ (b + 0x9e3779b97f4a7c15ull + (a << 6) + (a >> 2));
  return splitmix64(x);
}

struct Rng
{
  uint64_t s[4];
  explicit Rng(uint64_t seed = 1) { reseed(seed); }
  void reseed(uint64_t seed)
  {
    uint64_t x = seed;
    for (auto &v : s)
      v = splitmix64(x);
  }
  static uint64_t rotl(uint64_t x, int k) { return (x << k) | (x >> (64 - k)); }
  uint64_t next()
  {
    uint64_t r = rotl(s[1] * 5, 7) * 9, t = s[1] << 17;
    s[2] ^= s[0];
    s[3] ^= s[1];
    s[1] ^= s[2];
    s[0] ^= s[3];
    s[2] ^= t;
    s[3] = rotl(s[3], 45);
    return r;
  }
  // uniform in [0, n), n > 0
  uint64_t below(uint64_t n) { return n <= 1 ? 0 : next() % n; }
  // uniform in [lo, hi]
  int64_t range(int64_t lo, int64_t hi) { return lo + (int64_t)below((uint64_t)(hi - lo + 1)); }
  double real() { return (next() >> 11) * (1.0 / 9007199254740992.0); }
  bool chance(double p) { return p > 0 && real() < p; }
  template <class T, size_t N>
  const T &pick(const T (&arr)[N])
  {
    return arr[below(N)];
  }
};
}  // namespace vsim
