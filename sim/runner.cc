// runner.cc - worker loop, replay, capture and minimisation around an engine.
// Compiled WITHOUT the prefix (real primitives, real clocks for wall budgets).
#include "engine.h"

#include <fcntl.h>
#include <sys/mman.h>
#include <sys/wait.h>
#include <unistd.h>
#include <algorithm>
#include <chrono>
#include <csignal>
#include <cstdio>
#include <cstdlib>
#include <cstring>
#include <fstream>
#include <map>
#include <nlohmann/json.hpp>
#include <set>
#include <sstream>
#include <unordered_set>

using json = nlohmann::ordered_json;

#ifdef VSIM_GCOV
extern "C" void __gcov_dump(void);
#define VSIM_GCOV_DUMP() __gcov_dump()
#else
#define VSIM_GCOV_DUMP() ((void)0)
#endif

extern "C" __attribute__((used)) const char *__asan_default_options()
{
  return "exitcode=77:detect_leaks=0:abort_on_error=0:allocator_may_return_null=1:"
         "detect_stack_use_after_return=0";
}
extern "C" __attribute__((used)) const char *__ubsan_default_options()
{
  return "halt_on_error=1:exitcode=77:print_stacktrace=1";
}

namespace vsim
{

static int g_tier_scale = 1;
int tier_scale()
{
  return g_tier_scale;
}

static std::vector<Violation> g_reported;
void report(const std::string &cls, const std::string &detail)
{
  for (auto &v : g_reported)
    if (v.cls == cls)
      return;  // one per class per run
  g_reported.push_back({cls, detail});
}
const std::vector<Violation> &reported()
{
  return g_reported;
}

void draw_run_config(Rng &fl, const SimKnobs &k, RunConfig &rc)
{
  double r = fl.real();
  if (r < 0.40)
  {
    rc.strategy              = S_RW;
    static const double ps[] = {0.02, 0.1, 0.3, 0.6};
    rc.rw_p                  = fl.pick(ps);
  }
  else if (r < 0.70)
  {
    rc.strategy                = S_PCT;
    rc.pct_depth               = (int)fl.below(4);
    static const double mult[] = {0.5, 1.0, 2.0};
    rc.pct_len                 = std::max(8, (int)(k.typical_len * fl.pick(mult)));
  }
  else if (r < 0.85)
  {
    rc.strategy             = S_BURST;
    static const int means[] = {3, 8, 30};
    rc.burst_mean           = fl.pick(means);
  }
  else
  {
    rc.strategy              = S_DELAY;
    rc.delay_victim          = (int)fl.below(8);
    static const int kinds[] = {0,
                                K_ATOMIC_CAS,
                                K_ATOMIC_LOAD,
                                K_ATOMIC_STORE,
                                K_ATOMIC_RMW,
                                K_MUTEX_LOCK,
                                K_MUTEX_UNLOCK,
                                K_CV_NOTIFY,
                                K_CV_WAIT,
                                K_HARNESS_CS,
                                K_HARNESS};
    rc.delay_kind            = fl.pick(kinds);
  }
  static const int64_t costs[] = {0, 0, 1, 1000, 1000, 100000};
  rc.cost_ns                   = fl.pick(costs);
  rc.clock_strict              = !(k.allow_coarse_clock && fl.chance(0.3));
  static const int quanta[]    = {32, 64, 256};
  rc.quantum                   = fl.pick(quanta);
  // draw every rate unconditionally so the stream position does not depend on k
  static const double pcas[]    = {0.05, 0.2};
  static const double pcv[]     = {0.002, 0.02};
  static const double pst[]     = {0.002, 0.01};
  static const int64_t stall[]  = {50, 500, 3000};
  static const double pjump[]   = {0.01, 0.1};
  static const double pspawn[]  = {0.1, 0.3};
  bool e1 = fl.chance(0.5), e2 = fl.chance(0.5), e3 = fl.chance(0.4), e4 = fl.chance(0.5),
       e5       = fl.chance(0.5);
  double v1     = fl.pick(pcas), v2 = fl.pick(pcv), v3 = fl.pick(pst), v4 = fl.pick(pjump),
         v5     = fl.pick(pspawn);
  int64_t st    = fl.pick(stall);
  rc.stall_points = std::min<int64_t>(st, k.stall_cap);
  if (k.faults_on)
  {
    if (k.allow_cas_spurious && e1)
      rc.p_cas_spurious = v1;
    if (k.allow_cv_spurious && e2)
      rc.p_cv_spurious = v2;
    if (k.allow_stall && e3)
      rc.p_stall = v3;
    if (k.allow_sysjump && e4)
      rc.p_sysjump = v4;
    if (k.allow_spawn_fail && e5)
      rc.p_spawn_fail = v5;
  }
  // call-boundary preemption is a scheduling dimension, not a fault: also in fault-free strata
  static const int periods[]   = {1, 3, 7, 29};
  static const double pcalls[] = {0.01, 0.05, 0.2};
  bool e6   = fl.chance(0.35);
  int per   = fl.pick(periods);
  double pc = fl.pick(pcalls);
  if (k.allow_call_points && e6)
  {
    rc.call_period = per;
    rc.p_call      = pc;
  }
}

}  // namespace vsim

using namespace vsim;

// ------------------------------------------------------------------ JSON
static json rc_to_json(const RunConfig &rc)
{
  json j;
  j["sched_seed"]     = rc.sched_seed;
  j["entropy_seed"]   = rc.entropy_seed;
  j["strategy"]       = rc.strategy;
  j["rw_p"]           = rc.rw_p;
  j["pct_depth"]      = rc.pct_depth;
  j["pct_len"]        = rc.pct_len;
  j["burst_mean"]     = rc.burst_mean;
  j["delay_victim"]   = rc.delay_victim;
  j["delay_kind"]     = rc.delay_kind;
  j["cost_ns"]        = rc.cost_ns;
  j["clock_strict"]   = rc.clock_strict;
  j["quantum"]        = rc.quantum;
  j["budget1"]        = rc.budget1;
  j["budget2"]        = rc.budget2;
  j["p_cas_spurious"] = rc.p_cas_spurious;
  j["p_cv_spurious"]  = rc.p_cv_spurious;
  j["p_stall"]        = rc.p_stall;
  j["stall_points"]   = rc.stall_points;
  j["max_stalls"]     = rc.max_stalls;
  j["p_sysjump"]      = rc.p_sysjump;
  j["p_spawn_fail"]   = rc.p_spawn_fail;
  j["call_period"]    = rc.call_period;
  j["p_call"]         = rc.p_call;
  return j;
}

static void rc_from_json(const json &j, RunConfig &rc)
{
  rc.sched_seed     = j.value("sched_seed", (uint64_t)1);
  rc.entropy_seed   = j.value("entropy_seed", (uint64_t)1);
  rc.strategy       = j.value("strategy", 0);
  rc.rw_p           = j.value("rw_p", 0.1);
  rc.pct_depth      = j.value("pct_depth", 1);
  rc.pct_len        = j.value("pct_len", 400);
  rc.burst_mean     = j.value("burst_mean", 8);
  rc.delay_victim   = j.value("delay_victim", 0);
  rc.delay_kind     = j.value("delay_kind", 0);
  rc.cost_ns        = j.value("cost_ns", (int64_t)0);
  rc.clock_strict   = j.value("clock_strict", true);
  rc.quantum        = j.value("quantum", 64);
  rc.budget1        = j.value("budget1", (uint64_t)20000);
  rc.budget2        = j.value("budget2", (uint64_t)60000);
  rc.p_cas_spurious = j.value("p_cas_spurious", 0.0);
  rc.p_cv_spurious  = j.value("p_cv_spurious", 0.0);
  rc.p_stall        = j.value("p_stall", 0.0);
  rc.stall_points   = j.value("stall_points", (int64_t)0);
  rc.max_stalls     = j.value("max_stalls", 2);
  rc.p_sysjump      = j.value("p_sysjump", 0.0);
  rc.p_spawn_fail   = j.value("p_spawn_fail", 0.0);
  rc.call_period    = j.value("call_period", 0);
  rc.p_call         = j.value("p_call", 0.0);
}

static const char *strategy_name(int s)
{
  switch (s)
  {
    case S_RW:
      return "rw";
    case S_PCT:
      return "pct";
    case S_BURST:
      return "burst";
    case S_DELAY:
      return "delay";
  }
  return "?";
}

static json case_to_json(const Case &c, bool with_text)
{
  json j;
  j["format"]  = "vsim-replay-1";
  j["engine"]  = g_engine.name;
  j["prop"]    = c.prop;
  j["stratum"] = c.stratum;
  j["seed"]    = c.seed;
  json kn      = json::array();
  for (auto &k : c.knobs)
    kn.push_back(json::array({k.first, k.second}));
  j["knobs"] = kn;
  json ts    = json::array();
  for (auto &t : c.tasks)
  {
    json tj;
    tj["role"] = t.role;
    json ops   = json::array();
    json txt   = json::array();
    for (auto &o : t.ops)
    {
      ops.push_back(json::array({o.kind, o.a, o.b, o.c, o.d}));
      if (with_text && g_engine.describe_op)
        txt.push_back(g_engine.describe_op(c, t.role, o));
    }
    tj["ops"] = ops;
    if (with_text)
      tj["ops_text"] = txt;
    ts.push_back(tj);
  }
  j["tasks"] = ts;
  json fs    = json::array();
  json ftxt  = json::array();
  for (auto &f : c.faults)
  {
    fs.push_back(json::array({f.kind, f.target, f.at, f.arg}));
    if (with_text && g_engine.describe_fault)
      ftxt.push_back(g_engine.describe_fault(c, f));
  }
  j["faults"] = fs;
  if (with_text)
    j["faults_text"] = ftxt;
  j["rc"]             = rc_to_json(c.rc);
  j["rc"]["strategy_name"] = strategy_name(c.rc.strategy);
  return j;
}

static bool case_from_json(const json &j, Case &c, std::vector<std::pair<uint32_t, uint32_t>> &dec)
{
  if (j.value("engine", std::string()) != g_engine.name)
    return false;
  c.prop    = j.value("prop", std::string());
  c.stratum = j.value("stratum", std::string());
  c.seed    = j.value("seed", (uint64_t)0);
  c.knobs.clear();
  for (auto &k : j["knobs"])
    c.knobs.emplace_back(k[0].get<std::string>(), k[1].get<int64_t>());
  c.tasks.clear();
  for (auto &tj : j["tasks"])
  {
    TaskProg t;
    t.role = tj.value("role", 0);
    for (auto &o : tj["ops"])
    {
      Op op;
      op.kind = o[0].get<int>();
      op.a    = o[1].get<int64_t>();
      op.b    = o[2].get<int64_t>();
      op.c    = o[3].get<int64_t>();
      op.d    = o[4].get<int64_t>();
      t.ops.push_back(op);
    }
    c.tasks.push_back(std::move(t));
  }
  c.faults.clear();
  for (auto &f : j["faults"])
  {
    Fault ft;
    ft.kind   = f[0].get<int>();
    ft.target = f[1].get<int>();
    ft.at     = f[2].get<int>();
    ft.arg    = f[3].get<int64_t>();
    c.faults.push_back(ft);
  }
  rc_from_json(j["rc"], c.rc);
  dec.clear();
  if (j.contains("decisions"))
    for (auto &d : j["decisions"])
      dec.emplace_back(d[0].get<uint32_t>(), d[1].get<uint32_t>());
  return true;
}

static json decisions_to_json(const std::vector<std::pair<uint32_t, uint32_t>> &d)
{
  json a = json::array();
  for (auto &p : d)
    a.push_back(json::array({p.first, p.second}));
  return a;
}

static uint64_t fnv(const std::string &s)
{
  uint64_t h = 0xcbf29ce484222325ull;
  for (unsigned char ch : s)
    h = (h ^ ch) * 0x100000001b3ull;
  return h;
}

static uint64_t case_hash(const Case &c)
{
  uint64_t h = fnv(c.prop) ^ fnv(c.stratum);
  auto add   = [&](uint64_t v) { h = (h ^ v) * 0x100000001b3ull; };
  for (auto &k : c.knobs)
  {
    add(fnv(k.first));
    add((uint64_t)k.second);
  }
  for (auto &t : c.tasks)
  {
    add(0xabcdef);
    add(t.role);
    for (auto &o : t.ops)
    {
      add(o.kind);
      add(o.a);
      add(o.b);
      add(o.c);
      add(o.d);
    }
  }
  for (auto &f : c.faults)
  {
    add(f.kind);
    add(f.target);
    add(f.at);
    add(f.arg);
  }
  add(c.rc.cost_ns);
  add(c.rc.clock_strict);
  return h;
}

static void make_case(const std::string &prop, uint64_t base_seed, uint64_t index, Case &c)
{
  uint64_t run_seed = mix(mix(base_seed, fnv(prop)), index);
  c                 = Case();
  c.prop            = prop;
  c.seed            = run_seed;
  Rng wl(mix(run_seed, 1)), fl(mix(run_seed, 2));
  c.rc.sched_seed   = mix(run_seed, 3);
  c.rc.entropy_seed = mix(run_seed, 4);
  g_engine.generate(prop, wl, fl, c);
  // allocator seam: unless the engine decided itself, a quarter of the runs hand a freed
  // address out again at once (own stream: the engine's draws are not shifted)
  Rng al(mix(run_seed, 5));
  bool decided = false;
  for (auto &k : c.knobs)
    if (k.first == "alloc_lifo")
      decided = true;
  if (!decided && al.chance(0.25))
    c.set("alloc_lifo", 1);
}

// ---------------------------------------------------------- running a case
struct Outcome
{
  std::vector<Violation> violations;
  RunResult rr;
  bool fatal = false;
  uint64_t sw_in_op = 0;
  bool has(const std::string &cls) const
  {
    for (auto &v : violations)
      if (v.cls == cls)
        return true;
    return false;
  }
};

static const Case *g_cur_case = nullptr;

// allocator seam (sim/alloc.cc): knob alloc_lifo of a case = immediate address reuse
namespace vsim
{
void alloc_begin_run(bool lifo);
uint64_t alloc_end_run();
}  // namespace vsim

static Outcome run_inproc(const Case &c)
{
  g_reported.clear();
  g_cur_case = &c;
  Outcome o;
  vsim::alloc_begin_run(c.knob("alloc_lifo", 0) != 0);
  o.rr       = vsim::run(c.rc, [&c]() { g_engine.body(c); });
  o.sw_in_op = vsim::switches_in_op();
  g_engine.check(c, o.rr);
  if (vsim::alloc_end_run() > 0)
    vsim::probe("fault.addr_reuse");  // runs in which at least one freed address was handed out again
  o.violations = g_reported;
  g_cur_case   = nullptr;
  return o;
}

// Shared memory block used to get results out of a forked child whatever
// happens to it.
struct ChildShm
{
  volatile uint32_t done;
  volatile uint32_t text_len;
  char text[1 << 16];
  SharedTrace trace;  // must be last (flexible tail)
};
static const uint32_t kTraceCap = 1 << 18;
static ChildShm *g_shm          = nullptr;

static ChildShm *alloc_shm()
{
  size_t sz = sizeof(ChildShm) + sizeof(uint32_t) * 2 * kTraceCap;
  void *p   = mmap(nullptr, sz, PROT_READ | PROT_WRITE, MAP_SHARED | MAP_ANONYMOUS, -1, 0);
  if (p == MAP_FAILED)
  {
    perror("mmap");
    exit(2);
  }
  ChildShm *s  = static_cast<ChildShm *>(p);
  s->trace.cap = kTraceCap;
  return s;
}

static void shm_put_text(const std::string &s)
{
  size_t n = std::min(s.size(), sizeof(g_shm->text) - 1);
  memcpy(g_shm->text, s.data(), n);
  g_shm->text[n]  = 0;
  g_shm->text_len = (uint32_t)n;
}

static void child_fatal(const char *cls, const char *detail)
{
  json j;
  std::string prop = g_cur_case ? g_cur_case->prop : "infra";
  std::string c    = std::string(cls) == "harness_error" || std::string(cls) == "exception"
                         ? std::string("infra.") + cls
                         : prop + ".liveness." + cls;
  j["violations"]  = json::array({json::array({c, detail})});
  j["fatal"]       = true;
  shm_put_text(j.dump());
  g_shm->done = 1;
  _exit(3);
}

// Runs the case in a forked child with the given explicit decisions (replay)
// or with its strategy (search). Never lets a crash escape.
static Outcome run_child(const Case &c0,
                         const std::vector<std::pair<uint32_t, uint32_t>> *decisions)
{
  if (!g_shm)
    g_shm = alloc_shm();
  g_shm->done     = 0;
  g_shm->text_len = 0;
  g_shm->trace.n  = 0;
  g_shm->trace.points = 0;
  g_shm->trace.hash   = 0;
  fflush(stdout);
  fflush(stderr);
  pid_t pid = fork();
  if (pid == 0)
  {
    alarm(180);
    Case c = c0;
    if (decisions)
    {
      c.rc.replay    = true;
      c.rc.decisions = *decisions;
    }
    set_shared_trace(&g_shm->trace);
    set_fatal_handler(child_fatal);
    Outcome o = run_inproc(c);
    json j;
    json vs = json::array();
    for (auto &v : o.violations)
      vs.push_back(json::array({v.cls, v.detail}));
    j["violations"] = vs;
    j["fatal"]      = false;
    j["points"]     = o.rr.points;
    j["switches"]   = o.rr.switches;
    j["tasks"]      = o.rr.tasks;
    j["sim_time_ns"] = o.rr.sim_time_ns;
    shm_put_text(j.dump());
    g_shm->done = 1;
    _exit(0);
  }
  int status = 0;
  waitpid(pid, &status, 0);
  Outcome o;
  o.rr.points     = g_shm->trace.points;
  o.rr.trace_hash = g_shm->trace.hash;
  uint32_t n_raw  = g_shm->trace.n;
  uint32_t n      = std::min<uint32_t>(n_raw, kTraceCap);
  for (uint32_t i = 0; i < n; ++i)
    o.rr.decisions.emplace_back(g_shm->trace.pairs[2 * i], g_shm->trace.pairs[2 * i + 1]);
  if (g_shm->done)
  {
    json j  = json::parse(std::string(g_shm->text, g_shm->text_len), nullptr, false);
    if (!j.is_discarded())
    {
      for (auto &v : j["violations"])
        o.violations.push_back({v[0].get<std::string>(), v[1].get<std::string>()});
      o.fatal = j.value("fatal", false);
      if (j.contains("tasks"))
        o.rr.tasks = j["tasks"].get<int>();
    }
  }
  else
  {
    o.fatal = true;
    std::string cls, detail;
    if (WIFEXITED(status) && WEXITSTATUS(status) == 77)
    {
      cls    = c0.prop + ".crash.sanitizer";
      detail = "AddressSanitizer/UBSan report (exit 77) - see stderr of the replay";
    }
    else if (WIFSIGNALED(status) && WTERMSIG(status) == SIGALRM)
    {
      cls    = c0.prop + ".liveness.hang";
      detail = "no completion within 180 s of wall time (loop without schedule points?)";
    }
    else if (WIFSIGNALED(status))
    {
      cls    = c0.prop + ".crash.signal";
      detail = std::string("killed by signal ") + std::to_string(WTERMSIG(status));
    }
    else
    {
      cls    = c0.prop + ".crash.exit";
      detail = std::string("unexpected exit status ") + std::to_string(WEXITSTATUS(status));
    }
    o.violations.push_back({cls, detail});
  }
  return o;
}

// ---------------------------------------------------------------- replay file
static void write_replay(const std::string &path,
                         const Case &c,
                         const std::vector<std::pair<uint32_t, uint32_t>> &dec,
                         const std::string &cls,
                         const std::string &detail,
                         uint64_t trace_hash,
                         uint64_t points)
{
  json j         = case_to_json(c, true);
  j["decisions"] = decisions_to_json(dec);
  json e;
  e["class"]      = cls;
  e["detail"]     = detail;
  char buf[32];
  snprintf(buf, sizeof buf, "%016llx", (unsigned long long)trace_hash);
  e["trace_hash"] = buf;
  e["points"]     = points;
  j["expect"]     = e;
  std::ofstream f(path);
  f << j.dump(1) << "\n";
}

static bool load_replay(const std::string &path,
                        Case &c,
                        std::vector<std::pair<uint32_t, uint32_t>> &dec,
                        std::string &cls,
                        uint64_t &hash)
{
  std::ifstream f(path);
  if (!f)
    return false;
  json j = json::parse(f, nullptr, false);
  if (j.is_discarded())
    return false;
  if (!case_from_json(j, c, dec))
    return false;
  cls  = j["expect"].value("class", std::string());
  hash = strtoull(j["expect"].value("trace_hash", std::string("0")).c_str(), nullptr, 16);
  return true;
}

// ------------------------------------------------------------------ minimiser
struct Minimiser
{
  Case best;
  std::vector<std::pair<uint32_t, uint32_t>> dec;
  std::string cls;
  int runs      = 0;
  int max_runs  = 400;
  double max_s  = 25;
  std::chrono::steady_clock::time_point t0 = std::chrono::steady_clock::now();
  std::string detail;
  uint64_t hash = 0, points = 0;

  bool budget_left() const
  {
    double s = std::chrono::duration<double>(std::chrono::steady_clock::now() - t0).count();
    return runs < max_runs && s < max_s;
  }
  bool try_candidate(const Case &c, const std::vector<std::pair<uint32_t, uint32_t>> &d)
  {
    if (!budget_left())
      return false;
    ++runs;
    Outcome o = run_child(c, &d);
    for (auto &v : o.violations)
      if (v.cls == cls)
      {
        best   = c;
        dec    = d;
        detail = v.detail;
        hash   = o.rr.trace_hash;
        points = o.rr.points;
        return true;
      }
    return false;
  }
  size_t total_ops() const
  {
    size_t n = 0;
    for (auto &t : best.tasks)
      n += t.ops.size();
    return n;
  }
  void pass_tasks()
  {
    for (size_t i = best.tasks.size(); i-- > 0 && budget_left();)
    {
      if (best.tasks.size() <= 1)
        break;
      Case c = best;
      c.tasks.erase(c.tasks.begin() + i);
      try_candidate(c, dec);
    }
  }
  void pass_ops()
  {
    for (size_t ti = 0; ti < best.tasks.size(); ++ti)
    {
      size_t chunk = std::max<size_t>(1, best.tasks[ti].ops.size() / 2);
      while (chunk >= 1 && budget_left())
      {
        bool any = false;
        for (size_t start = 0; start < best.tasks[ti].ops.size() && budget_left();)
        {
          Case c    = best;
          auto &ops = c.tasks[ti].ops;
          size_t e  = std::min(ops.size(), start + chunk);
          ops.erase(ops.begin() + start, ops.begin() + e);
          if (try_candidate(c, dec))
            any = true;
          else
            start += chunk;
        }
        if (chunk == 1 && !any)
          break;
        chunk = (chunk == 1) ? 1 : chunk / 2;
      }
    }
  }
  void pass_faults()
  {
    for (size_t i = best.faults.size(); i-- > 0 && budget_left();)
    {
      Case c = best;
      c.faults.erase(c.faults.begin() + i);
      try_candidate(c, dec);
    }
    // scheduler-level fault kinds
    double RunConfig::*rates[] = {&RunConfig::p_cas_spurious, &RunConfig::p_cv_spurious,
                                  &RunConfig::p_stall, &RunConfig::p_sysjump,
                                  &RunConfig::p_spawn_fail};
    for (auto r : rates)
    {
      if (best.rc.*r > 0 && budget_left())
      {
        Case c  = best;
        c.rc.*r = 0;
        try_candidate(c, dec);
      }
    }
    if (best.rc.cost_ns != 0 && budget_left())
    {
      Case c       = best;
      c.rc.cost_ns = 0;
      try_candidate(c, dec);
    }
    if (best.rc.call_period != 0 && budget_left())
    {
      Case c           = best;
      c.rc.call_period = 0;
      c.rc.p_call      = 0;
      try_candidate(c, dec);
    }
  }
  void pass_knobs()
  {
    if (!g_engine.shrinkable_knobs)
      return;
    for (auto *k = g_engine.shrinkable_knobs; k->first; ++k)
    {
      int64_t cur = best.knob(k->first, k->second);
      if (cur <= k->second)
        continue;
      Case c = best;
      c.set(k->first, k->second);
      if (try_candidate(c, dec))
        continue;
      int64_t mid = k->second + (cur - k->second) / 2;
      if (mid != cur && mid != k->second)
      {
        c = best;
        c.set(k->first, mid);
        try_candidate(c, dec);
      }
    }
  }
  void pass_decisions()
  {
    if (dec.empty())
      return;
    {
      std::vector<std::pair<uint32_t, uint32_t>> none;
      if (try_candidate(best, none))
        return;
    }
    size_t chunk = std::max<size_t>(1, dec.size() / 2);
    while (budget_left())
    {
      bool any = false;
      for (size_t start = 0; start < dec.size() && budget_left();)
      {
        auto d   = dec;
        size_t e = std::min(d.size(), start + chunk);
        d.erase(d.begin() + start, d.begin() + e);
        if (try_candidate(best, d))
          any = true;
        else
          start += chunk;
      }
      if (chunk == 1)
      {
        if (!any)
          break;
      }
      else
        chunk /= 2;
      if (dec.size() > 64 && chunk < 4)
        break;  // keep the cost bounded on long streams
    }
  }
  void run_all()
  {
    for (int round = 0; round < 4 && budget_left(); ++round)
    {
      size_t before = total_ops() + best.faults.size() + dec.size() + best.tasks.size();
      pass_tasks();
      pass_ops();
      pass_faults();
      pass_knobs();
      pass_decisions();
      size_t after = total_ops() + best.faults.size() + dec.size() + best.tasks.size();
      if (after >= before)
        break;
    }
  }
};

// ------------------------------------------------------------------ worker
static std::string g_outdir;
static int g_widx        = 0;
static uint64_t g_cur_ix = 0;
static int g_status_fd   = -1;

static void emit_candidate(const Case &c,
                           const std::vector<std::pair<uint32_t, uint32_t>> &dec,
                           const Violation &v,
                           uint64_t hash,
                           uint64_t points,
                           uint64_t index)
{
  char name[256];
  snprintf(name, sizeof name, "%s/cand_w%d_i%llu_%zx.json", g_outdir.c_str(), g_widx,
           (unsigned long long)index, (size_t)(fnv(v.cls) & 0xffff));
  write_replay(name, c, dec, v.cls, v.detail, hash, points);
  printf("CAND class=%s index=%llu file=%s\n", v.cls.c_str(), (unsigned long long)index, name);
  fflush(stdout);
}

struct WStats
{
  std::chrono::steady_clock::time_point t0;
  std::unordered_set<uint64_t> hashes, hashes_nt, sigs, callsites;
  uint64_t calls = 0, call_runs = 0;
  std::map<std::string, uint64_t> strat, strata, viol, probes_total;
  uint64_t fired[D_NDRAWS] = {};
  uint64_t runs = 0, points = 0, switches = 0, timer_jumps = 0, drained = 0, nontrivial = 0;
  long double sim_ns  = 0;
  json samples        = json::array();
  uint64_t max_points = 0;
  uint64_t next_index = 0;
};
static WStats *g_ws = nullptr;

static void print_summary(bool partial = false)
{
  if (!g_ws)
    return;
  WStats &w   = *g_ws;
  double wall = std::chrono::duration<double>(std::chrono::steady_clock::now() - w.t0).count();
  auto dump   = [&](const std::unordered_set<uint64_t> &s, const std::string &name) {
    std::vector<uint64_t> v(s.begin(), s.end());
    std::sort(v.begin(), v.end());
    // append: a restarted worker adds to what its predecessors left
    std::string p = g_outdir + "/" + name + "_w" + std::to_string(g_widx) + ".bin";
    FILE *f       = fopen(p.c_str(), "ab");
    if (f)
    {
      fwrite(v.data(), 8, v.size(), f);
      fclose(f);
    }
  };
  if (!partial)
  {
    dump(w.hashes, "hashes");
    dump(w.hashes_nt, "hashesnt");
    dump(w.sigs, "sigs");
    dump(w.callsites, "callsites");
  }
  json j;
  j["worker"]      = g_widx;
  j["runs"]        = w.runs;
  j["next_index"]  = w.next_index;
  j["points"]      = w.points;
  j["max_points"]  = w.max_points;
  j["switches"]    = w.switches;
  j["timer_jumps"] = w.timer_jumps;
  j["calls"]       = w.calls;
  j["call_runs"]   = w.call_runs;
  j["sim_time_s"]  = (double)(w.sim_ns / 1e9L);
  j["drained"]     = w.drained;
  j["nontrivial"]  = w.nontrivial;
  j["wall_s"]      = wall;
  static const char *draw_names[] = {"sched",      "cas_spurious",  "cv_spurious",      "notify_one",
                                     "task_stall", "sysclock_jump", "thread_spawn_fail", "call_preempt"};
  json fj;
  for (int i = 1; i < D_NDRAWS; ++i)
    if (i != D_NOTIFY_ONE)
      fj[draw_names[i]] = w.fired[i];
  j["fired"]      = fj;
  j["strategies"] = w.strat;
  j["strata"]     = w.strata;
  j["probes"]     = w.probes_total;
  j["violations"] = w.viol;
  j["samples"]    = w.samples;
  printf("%s %s\n", partial ? "PARTIAL" : "SUMMARY", j.dump().c_str());
  fflush(stdout);
}

static void worker_fatal(const char *cls, const char *detail)
{
  RunResult r = vsim::snapshot();
  Violation v;
  std::string prop = g_cur_case ? g_cur_case->prop : "infra";
  if (std::string(cls) == "harness_error" || std::string(cls) == "exception")
    v.cls = std::string("infra.") + cls;
  else
    v.cls = prop + ".liveness." + cls;
  v.detail = detail;
  if (g_cur_case)
    emit_candidate(*g_cur_case, r.decisions, v, r.trace_hash, r.points, g_cur_ix);
  if (g_ws)
  {
    g_ws->viol[v.cls]++;
    g_ws->runs++;
    g_ws->points += r.points;
  }
  print_summary();
  printf("FATAL index=%llu class=%s\n", (unsigned long long)g_cur_ix, v.cls.c_str());
  fflush(stdout);
  _exit(3);
}

static int worker_main(const std::string &prop,
                       uint64_t base_seed,
                       int widx,
                       int nworkers,
                       double budget_s,
                       uint64_t max_runs,
                       uint64_t first_index,
                       int nsamples)
{
  g_widx = widx;
  static WStats ws;
  g_ws  = &ws;
  ws.t0 = std::chrono::steady_clock::now();
  set_fatal_handler(worker_fatal);
  {
    std::string sf = g_outdir + "/cur_w" + std::to_string(widx);
    g_status_fd    = open(sf.c_str(), O_CREAT | O_WRONLY, 0644);
  }
  std::set<std::string> cand_done;
  uint64_t index = first_index + widx;
  for (;; index += nworkers)
  {
    ws.next_index = index;
    if (max_runs && ws.runs >= max_runs)
      break;
    if ((ws.runs & 15) == 0)
    {
      double s = std::chrono::duration<double>(std::chrono::steady_clock::now() - ws.t0).count();
      if (s >= budget_s)
        break;
      // what has been explored so far survives a sanitizer abort of this process
      static double last_partial = 0;
      if (s - last_partial >= (s < 2.0 ? 0.2 : 2.0))
      {
        last_partial = s;
        print_summary(true);
      }
    }
    g_cur_ix = index;
    if (g_status_fd >= 0)
      (void)!pwrite(g_status_fd, &index, sizeof index, 0);
    Case c;
    make_case(prop, base_seed, index, c);
    vsim::reset_probes();
    Outcome o = run_inproc(c);
    ++ws.runs;
    ws.points += o.rr.points;
    ws.switches += o.rr.switches;
    ws.timer_jumps += o.rr.timer_jumps;
    ws.calls += o.rr.calls;
    ws.call_runs += c.rc.call_period > 0;
    for (uint64_t cs : o.rr.call_sites)
      ws.callsites.insert(cs);
    ws.sim_ns += (long double)(o.rr.sim_time_ns - 1000000000ll);
    ws.drained += o.rr.drained;
    ws.max_points = std::max(ws.max_points, o.rr.points);
    for (int i = 0; i < D_NDRAWS; ++i)
      ws.fired[i] += o.rr.fired[i];
    ws.strat[strategy_name(c.rc.strategy)]++;
    ws.strata[c.stratum]++;
    for (auto &p : vsim::probes())
      ws.probes_total[p.first] += p.second;
    uint64_t h = o.rr.trace_hash ^ case_hash(c);
    ws.hashes.insert(h);
    bool nt = o.rr.tasks >= 2 && o.sw_in_op >= 1;
    if (nt)
    {
      ++ws.nontrivial;
      ws.hashes_nt.insert(h);
    }
    ws.sigs.insert(o.rr.switch_sig);
    if ((int)ws.samples.size() < nsamples && (nt || ws.runs > 50))
    {
      json s = case_to_json(c, true);
      s.erase("format");
      for (auto &tj : s["tasks"])
        tj.erase("ops");
      s.erase("faults");
      s["result"] = {{"points", o.rr.points},
                     {"switches", o.rr.switches},
                     {"tasks", o.rr.tasks},
                     {"decisions_nonzero", o.rr.decisions.size()},
                     {"draws", o.rr.draws},
                     {"sim_time_s", (double)(o.rr.sim_time_ns - 1000000000ll) / 1e9},
                     {"violations", o.violations.size()}};
      ws.samples.push_back(s);
    }
    for (auto &v : o.violations)
    {
      ws.viol[v.cls]++;
      if (!cand_done.count(v.cls))
      {
        cand_done.insert(v.cls);
        emit_candidate(c, o.rr.decisions, v, o.rr.trace_hash, o.rr.points, index);
      }
    }
  }
  ws.next_index = index;
  print_summary();
  VSIM_GCOV_DUMP();
  _exit(0);
}

// ------------------------------------------------------------------ main
static const char *arg_val(int argc, char **argv, const char *name, const char *dflt = nullptr)
{
  for (int i = 1; i + 1 < argc; ++i)
    if (!strcmp(argv[i], name))
      return argv[i + 1];
  return dflt;
}
static bool has_flag(int argc, char **argv, const char *name)
{
  for (int i = 1; i < argc; ++i)
    if (!strcmp(argv[i], name))
      return true;
  return false;
}

int main(int argc, char **argv)
{
  setvbuf(stdout, nullptr, _IOLBF, 0);
  signal(SIGPIPE, SIG_IGN);
  std::string prop   = arg_val(argc, argv, "--prop", "");
  uint64_t base_seed = strtoull(arg_val(argc, argv, "--seed", "1"), nullptr, 10);
  g_outdir           = arg_val(argc, argv, "--out-dir", "/verif/build/tmp");
  vsim::g_tier_scale = atoi(arg_val(argc, argv, "--scale", "1"));

  if (has_flag(argc, argv, "--describe"))
  {
    json j;
    j["engine"] = g_engine.name;
    json ps     = json::array();
    for (auto p = g_engine.props; *p; ++p)
      ps.push_back(*p);
    j["props"] = ps;
    json rc = json::array(), sc = json::array();
    for (auto p = g_engine.real_components; p && *p; ++p)
      rc.push_back(*p);
    for (auto p = g_engine.stub_components; p && *p; ++p)
      sc.push_back(*p);
    j["real"] = rc;
    j["stub"] = sc;
    j["rule"] = g_engine.rule;
    printf("%s\n", j.dump().c_str());
    return 0;
  }

  // Warm-up, identical in every process and every mode: a fixed set of generated cases is run
  // with call-boundary preemption off and the results are thrown away. What the code under
  // test does once per process (lazy singletons, the one-time at-fork registration of the id
  // generator, ...) has then happened before any run that counts, so the number of function
  // boundaries a run crosses - which places its call-boundary preemptions - does not depend on
  // what the process ran before: a worker's 10 000th run and its replay in a fresh process agree.
  // (First in a forked child: on a broken tree a warm-up case may deadlock or crash, and the
  // process must survive that to go on and report it from a run that counts.)
  auto warmup_survives = []() {
    fflush(stdout);
    fflush(stderr);
    pid_t pid = fork();
    if (pid != 0)
    {
      int st = 0;
      if (pid > 0)
        waitpid(pid, &st, 0);
      return pid > 0 && WIFEXITED(st) && WEXITSTATUS(st) == 0;
    }
    alarm(60);
    set_fatal_handler([](const char *, const char *) { _exit(9); });
    return true;  // the child goes on to run the warm-up itself and then exits
  };
  bool in_probe_child = false;
  {
    pid_t before = getpid();
    bool ok      = warmup_survives();
    in_probe_child = getpid() != before;
    if (!ok)
      goto warm_done;
  }
  {
    int saved_scale   = vsim::g_tier_scale;
    vsim::g_tier_scale = 1;
    for (auto pp = g_engine.props; *pp; ++pp)
      for (uint64_t i = 0; i < 24; ++i)
      {
        Case wc;
        make_case(*pp, 0x77a7, i, wc);
        wc.rc.call_period = 0;
        wc.rc.p_call      = 0;
        vsim::reset_probes();
        (void)run_inproc(wc);
      }
    vsim::reset_probes();
    vsim::g_tier_scale = saved_scale;
    if (in_probe_child)
      _exit(0);
  }
warm_done:

  if (has_flag(argc, argv, "--worker"))
  {
    int widx        = atoi(arg_val(argc, argv, "--widx", "0"));
    int nworkers    = atoi(arg_val(argc, argv, "--nworkers", "1"));
    double budget   = atof(arg_val(argc, argv, "--budget-s", "10"));
    uint64_t maxr   = strtoull(arg_val(argc, argv, "--max-runs", "0"), nullptr, 10);
    uint64_t first  = strtoull(arg_val(argc, argv, "--first-index", "0"), nullptr, 10);
    int nsamples    = atoi(arg_val(argc, argv, "--samples", "0"));
    return worker_main(prop, base_seed, widx, nworkers, budget, maxr, first, nsamples);
  }

  // Digest mode for the determinism self-test: prints one line per index.
  if (has_flag(argc, argv, "--digest"))
  {
    uint64_t first = strtoull(arg_val(argc, argv, "--first-index", "0"), nullptr, 10);
    uint64_t count = strtoull(arg_val(argc, argv, "--count", "100"), nullptr, 10);
    uint64_t step  = strtoull(arg_val(argc, argv, "--step", "1"), nullptr, 10);
    set_fatal_handler(worker_fatal);
    for (uint64_t i = 0; i < count; ++i)
    {
      uint64_t index = first + i * step;
      g_cur_ix       = index;
      Case c;
      make_case(prop, base_seed, index, c);
      Outcome o = run_inproc(c);
      std::string v;
      for (auto &x : o.violations)
        v += x.cls + ",";
      printf("D %llu %016llx %016llx %llu %s\n", (unsigned long long)index,
             (unsigned long long)o.rr.trace_hash, (unsigned long long)case_hash(c),
             (unsigned long long)o.rr.points, v.c_str());
    }
    fflush(stdout);
    _exit(0);
  }

  // Re-run index i of a seed in a child and write a candidate file whatever
  // happens (used after a worker died without a candidate).
  if (has_flag(argc, argv, "--capture"))
  {
    uint64_t index  = strtoull(arg_val(argc, argv, "--index", "0"), nullptr, 10);
    std::string out = arg_val(argc, argv, "--out", "/verif/build/tmp/capture.json");
    Case c;
    make_case(prop, base_seed, index, c);
    Outcome o = run_child(c, nullptr);
    if (o.violations.empty())
    {
      printf("CAPTURE clean index=%llu\n", (unsigned long long)index);
      return 0;
    }
    for (auto &v : o.violations)
    {
      write_replay(out, c, o.rr.decisions, v.cls, v.detail, o.rr.trace_hash, o.rr.points);
      printf("CAND class=%s index=%llu file=%s\n", v.cls.c_str(), (unsigned long long)index,
             out.c_str());
      break;
    }
    return 0;
  }

  if (has_flag(argc, argv, "--minimise"))
  {
    std::string in  = arg_val(argc, argv, "--case", "");
    std::string out = arg_val(argc, argv, "--out", "");
    Minimiser m;
    uint64_t hash = 0;
    if (!load_replay(in, m.best, m.dec, m.cls, hash))
    {
      fprintf(stderr, "cannot load %s\n", in.c_str());
      return 2;
    }
    m.max_runs = atoi(arg_val(argc, argv, "--max-runs", "400"));
    m.max_s    = atof(arg_val(argc, argv, "--max-s", "25"));
    // gate 1: the explicit decision stream reproduces class and hash, twice
    Outcome a = run_child(m.best, &m.dec);
    Outcome b = run_child(m.best, &m.dec);
    if (!a.has(m.cls) || !b.has(m.cls) || a.rr.trace_hash != b.rr.trace_hash)
    {
      printf("NONDETERMINISM class=%s file=%s (a:%d b:%d hash %016llx/%016llx)\n", m.cls.c_str(),
             in.c_str(), (int)a.has(m.cls), (int)b.has(m.cls),
             (unsigned long long)a.rr.trace_hash, (unsigned long long)b.rr.trace_hash);
      return 2;
    }
    for (auto &v : a.violations)
      if (v.cls == m.cls)
        m.detail = v.detail;
    m.hash   = a.rr.trace_hash;
    m.points = a.rr.points;
    size_t ops0 = m.total_ops(), dec0 = m.dec.size(), f0 = m.best.faults.size();
    m.run_all();
    write_replay(out, m.best, m.dec, m.cls, m.detail, m.hash, m.points);
    printf("MINIMISED class=%s file=%s ops %zu->%zu faults %zu->%zu decisions %zu->%zu reruns=%d\n",
           m.cls.c_str(), out.c_str(), ops0, m.total_ops(), f0, m.best.faults.size(), dec0,
           m.dec.size(), m.runs);
    return 0;
  }

  if (has_flag(argc, argv, "--replay"))
  {
    std::string in = arg_val(argc, argv, "--replay", "");
    Case c;
    std::vector<std::pair<uint32_t, uint32_t>> dec;
    std::string cls;
    uint64_t hash = 0;
    if (!load_replay(in, c, dec, cls, hash))
    {
      fprintf(stderr, "cannot load %s\n", in.c_str());
      return 2;
    }
    Outcome o = run_child(c, &dec);
    for (auto &v : o.violations)
      printf("REPLAY-VIOLATION class=%s detail=%s\n", v.cls.c_str(), v.detail.c_str());
    printf("REPLAY points=%llu trace_hash=%016llx expected_hash=%016llx\n",
           (unsigned long long)o.rr.points, (unsigned long long)o.rr.trace_hash,
           (unsigned long long)hash);
    if (o.has(cls))
    {
      bool same = (o.rr.trace_hash == hash);
      printf("REPRODUCED class=%s hash_match=%d\n", cls.c_str(), (int)same);
      printf("VIOLATION property=%s replay=%s\n", c.prop.c_str(), in.c_str());
      return same ? 1 : 4;
    }
    printf("NOT-REPRODUCED class=%s\n", cls.c_str());
    return 0;
  }

  fprintf(stderr,
          "usage: %s --describe | --worker ... | --digest ... | --capture ... | --minimise ... | "
          "--replay file\n",
          argv[0]);
  return 2;
}
