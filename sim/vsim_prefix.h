// vsim_prefix.h - force-included (-include) in front of every translation unit
// of the SDK and of the scenario code. Renames the std:: concurrency / clock
// tokens to scheduler-controlled shims, so the repository sources compile
// unmodified against the deterministic simulator.
#ifndef VSIM_PREFIX_H
#define VSIM_PREFIX_H

#include <bits/stdc++.h>
#include <pthread.h>
#include <unistd.h>

#include "vsim.h"

namespace std
{

// ---------------------------------------------------------------- atomics
template <class T>
class vsim_atomic
{
public:
  typedef T value_type;
  vsim_atomic() noexcept : a_(T()), id_(vsim::new_obj_id()) {}
  vsim_atomic(T v) noexcept : a_(v), id_(vsim::new_obj_id()) {}
  vsim_atomic(const vsim_atomic &)            = delete;
  vsim_atomic &operator=(const vsim_atomic &) = delete;

  bool is_lock_free() const noexcept { return true; }

  T load(memory_order mo = memory_order_seq_cst) const noexcept
  {
    vsim::point(vsim::K_ATOMIC_LOAD, id_);
    return a_.load(mo);
  }
  void store(T v, memory_order mo = memory_order_seq_cst) noexcept
  {
    vsim::point(vsim::K_ATOMIC_STORE, id_);
    a_.store(v, mo);
    // a second point AFTER a publishing operation (store, flag clear, mutex unlock): plain
    // accesses that follow it are otherwise glued to it, and "unlock, then read shared data"
    // could never be interleaved with another thread
    vsim::point(vsim::K_ATOMIC_STORE, id_ | 0x80000000u);
  }
  T exchange(T v, memory_order mo = memory_order_seq_cst) noexcept
  {
    vsim::point(vsim::K_ATOMIC_RMW, id_);
    return a_.exchange(v, mo);
  }
  bool compare_exchange_weak(T &expected, T desired, memory_order s, memory_order f) noexcept
  {
    vsim::point(vsim::K_ATOMIC_CAS, id_);
    if (a_.load(memory_order_relaxed) == expected && vsim::cas_spurious())
      return false;
    return a_.compare_exchange_strong(expected, desired, s, f);
  }
  bool compare_exchange_weak(T &expected, T desired, memory_order m = memory_order_seq_cst) noexcept
  {
    vsim::point(vsim::K_ATOMIC_CAS, id_);
    if (a_.load(memory_order_relaxed) == expected && vsim::cas_spurious())
      return false;
    return a_.compare_exchange_strong(expected, desired, m);
  }
  bool compare_exchange_strong(T &expected, T desired, memory_order s, memory_order f) noexcept
  {
    vsim::point(vsim::K_ATOMIC_CAS, id_);
    return a_.compare_exchange_strong(expected, desired, s, f);
  }
  bool compare_exchange_strong(T &expected,
                               T desired,
                               memory_order m = memory_order_seq_cst) noexcept
  {
    vsim::point(vsim::K_ATOMIC_CAS, id_);
    return a_.compare_exchange_strong(expected, desired, m);
  }
  operator T() const noexcept { return load(); }
  T operator=(T v) noexcept
  {
    store(v);
    return v;
  }
  // arithmetic (instantiated only where used)
  template <class U = T>
  U fetch_add(U v, memory_order mo = memory_order_seq_cst) noexcept
  {
    vsim::point(vsim::K_ATOMIC_RMW, id_);
    return a_.fetch_add(v, mo);
  }
  template <class U = T>
  U fetch_sub(U v, memory_order mo = memory_order_seq_cst) noexcept
  {
    vsim::point(vsim::K_ATOMIC_RMW, id_);
    return a_.fetch_sub(v, mo);
  }
  template <class U = T>
  U fetch_and(U v, memory_order mo = memory_order_seq_cst) noexcept
  {
    vsim::point(vsim::K_ATOMIC_RMW, id_);
    return a_.fetch_and(v, mo);
  }
  template <class U = T>
  U fetch_or(U v, memory_order mo = memory_order_seq_cst) noexcept
  {
    vsim::point(vsim::K_ATOMIC_RMW, id_);
    return a_.fetch_or(v, mo);
  }
  template <class U = T>
  U fetch_xor(U v, memory_order mo = memory_order_seq_cst) noexcept
  {
    vsim::point(vsim::K_ATOMIC_RMW, id_);
    return a_.fetch_xor(v, mo);
  }
  T operator++() noexcept { return fetch_add(T(1)) + T(1); }
  T operator++(int) noexcept { return fetch_add(T(1)); }
  T operator--() noexcept { return fetch_sub(T(1)) - T(1); }
  T operator--(int) noexcept { return fetch_sub(T(1)); }
  T operator+=(T v) noexcept { return fetch_add(v) + v; }
  T operator-=(T v) noexcept { return fetch_sub(v) - v; }
  T operator|=(T v) noexcept { return fetch_or(v) | v; }
  T operator&=(T v) noexcept { return fetch_and(v) & v; }

private:
  mutable atomic<T> a_;
  uint32_t id_;
};

class vsim_atomic_flag
{
public:
  vsim_atomic_flag(int v = 0) noexcept : a_(v != 0), id_(vsim::new_obj_id()) {}
  vsim_atomic_flag(const vsim_atomic_flag &)            = delete;
  vsim_atomic_flag &operator=(const vsim_atomic_flag &) = delete;
  bool test_and_set(memory_order mo = memory_order_seq_cst) noexcept
  {
    vsim::point(vsim::K_FLAG, id_);
    return a_.exchange(true, mo);
  }
  void clear(memory_order mo = memory_order_seq_cst) noexcept
  {
    vsim::point(vsim::K_FLAG, id_);
    a_.store(false, mo);
    vsim::point(vsim::K_FLAG, id_ | 0x80000000u);
  }

private:
  atomic<bool> a_;
  uint32_t id_;
};

// ---------------------------------------------------------------- mutexes
class vsim_condition_variable;

template <bool Recursive, class Real>
class vsim_mutex_base
{
public:
  vsim_mutex_base() noexcept { s_.id = vsim::new_obj_id(); }
  vsim_mutex_base(const vsim_mutex_base &)            = delete;
  vsim_mutex_base &operator=(const vsim_mutex_base &) = delete;
  void lock()
  {
    if (vsim::in_sim())
      vsim::mutex_lock(s_, Recursive);
    else
      real_.lock();
  }
  bool try_lock()
  {
    if (vsim::in_sim())
      return vsim::mutex_trylock(s_, Recursive);
    return real_.try_lock();
  }
  void unlock()
  {
    if (vsim::in_sim())
      vsim::mutex_unlock(s_);
    else
      real_.unlock();
  }

private:
  friend class vsim_condition_variable;
  Real real_;
  vsim::MutexS s_;
};

typedef vsim_mutex_base<false, mutex> vsim_mutex;
typedef vsim_mutex_base<true, recursive_mutex> vsim_recursive_mutex;

// Not used by the pinned tree; present so that a change which starts using them stays under
// the scheduler's control. Shared locking is modelled as exclusive (fewer behaviours, never a
// blocked baton holder); timed locking polls in simulated time.
class vsim_shared_mutex : public vsim_mutex
{
public:
  void lock_shared() { lock(); }
  bool try_lock_shared() { return try_lock(); }
  void unlock_shared() { unlock(); }
};
class vsim_timed_mutex : public vsim_mutex
{
public:
  template <class Rep, class Period>
  bool try_lock_for(const chrono::duration<Rep, Period> &d)
  {
    int64_t left = chrono::duration_cast<chrono::duration<long double, nano>>(d).count() > 4.0e18L
                       ? INT64_MAX / 2
                       : (int64_t)chrono::duration_cast<chrono::nanoseconds>(d).count();
    for (;;)
    {
      if (try_lock())
        return true;
      if (left <= 0)
        return false;
      int64_t step = left < 1000000 ? left : 1000000;
      if (vsim::in_sim())
        vsim::sleep_for_ns(step);
      else
        this_thread::sleep_for(chrono::nanoseconds(step));
      left -= step;
    }
  }
};

// ---------------------------------------------------- condition variable
namespace vsim_detail
{
template <class Rep, class Period>
inline int64_t sat_ns(const chrono::duration<Rep, Period> &d)
{
  long double ns =
      chrono::duration_cast<chrono::duration<long double, nano>>(d).count();
  if (ns > 4.0e18L)
    return INT64_MAX / 2;
  if (ns < -4.0e18L)
    return -(INT64_MAX / 2);
  return (int64_t)ns;
}
inline int64_t sat_add(int64_t a, int64_t b)
{
  if (b > 0 && a > INT64_MAX / 2 - b)
    return INT64_MAX / 2;
  return a + b;
}
}  // namespace vsim_detail

namespace chrono
{
struct vsim_steady_clock
{
  typedef chrono::nanoseconds duration;
  typedef duration::rep rep;
  typedef duration::period period;
  typedef chrono::time_point<vsim_steady_clock, duration> time_point;
  static constexpr bool is_steady = true;
  static time_point now() noexcept { return time_point(duration(vsim::steady_now_ns())); }
};
struct vsim_system_clock
{
  typedef chrono::nanoseconds duration;
  typedef duration::rep rep;
  typedef duration::period period;
  typedef chrono::time_point<vsim_system_clock, duration> time_point;
  static constexpr bool is_steady = false;
  static time_point now() noexcept { return time_point(duration(vsim::system_now_ns())); }
  static std::time_t to_time_t(const time_point &t) noexcept
  {
    return std::time_t(chrono::duration_cast<chrono::seconds>(t.time_since_epoch()).count());
  }
  static time_point from_time_t(std::time_t t) noexcept
  {
    return time_point(chrono::duration_cast<duration>(chrono::seconds(t)));
  }
};
}  // namespace chrono

class vsim_condition_variable
{
public:
  vsim_condition_variable() { s_.id = vsim::new_obj_id(); }
  vsim_condition_variable(const vsim_condition_variable &)            = delete;
  vsim_condition_variable &operator=(const vsim_condition_variable &) = delete;

  void notify_one() noexcept
  {
    if (vsim::in_sim())
      vsim::cv_notify(s_, false);
    else
      real_.notify_one();
  }
  void notify_all() noexcept
  {
    if (vsim::in_sim())
      vsim::cv_notify(s_, true);
    else
      real_.notify_all();
  }
  void wait(unique_lock<vsim_mutex> &lk)
  {
    if (vsim::in_sim())
      vsim::cv_wait(s_, lk.mutex()->s_, -1);
    else
      real_.wait(lk);
  }
  template <class Pred>
  void wait(unique_lock<vsim_mutex> &lk, Pred pred)
  {
    while (!pred())
      wait(lk);
  }
  template <class Rep, class Period>
  cv_status wait_for(unique_lock<vsim_mutex> &lk, const chrono::duration<Rep, Period> &d)
  {
    if (vsim::in_sim())
    {
      int64_t dl = vsim_detail::sat_add(vsim::steady_now_ns(), vsim_detail::sat_ns(d));
      return wait_deadline(lk, dl);
    }
    return real_.wait_for(lk, d);
  }
  template <class Rep, class Period, class Pred>
  bool wait_for(unique_lock<vsim_mutex> &lk, const chrono::duration<Rep, Period> &d, Pred pred)
  {
    if (vsim::in_sim())
    {
      int64_t dl = vsim_detail::sat_add(vsim::steady_now_ns(), vsim_detail::sat_ns(d));
      while (!pred())
        if (wait_deadline(lk, dl) == cv_status::timeout)
          return pred();
      return true;
    }
    return real_.wait_for(lk, d, pred);
  }
  template <class Dur>
  cv_status wait_until(unique_lock<vsim_mutex> &lk,
                       const chrono::time_point<chrono::vsim_steady_clock, Dur> &tp)
  {
    return wait_deadline(lk, vsim_detail::sat_ns(tp.time_since_epoch()));
  }
  template <class Dur>
  cv_status wait_until(unique_lock<vsim_mutex> &lk,
                       const chrono::time_point<chrono::vsim_system_clock, Dur> &tp)
  {
    // convert through the current offset between the two simulated clocks
    int64_t delta = vsim_detail::sat_ns(tp - chrono::vsim_system_clock::now());
    return wait_deadline(lk, vsim_detail::sat_add(vsim::steady_now_ns(), delta));
  }
  template <class Clock, class Dur, class Pred>
  bool wait_until(unique_lock<vsim_mutex> &lk, const chrono::time_point<Clock, Dur> &tp, Pred pred)
  {
    while (!pred())
      if (wait_until(lk, tp) == cv_status::timeout)
        return pred();
    return true;
  }

private:
  cv_status wait_deadline(unique_lock<vsim_mutex> &lk, int64_t dl)
  {
    if (!vsim::in_sim())
    {
      real_.wait_for(lk, chrono::milliseconds(1));
      return cv_status::timeout;
    }
    if (dl >= INT64_MAX / 2)
      dl = -1;
    else if (dl < 0)
      dl = 0;
    return vsim::cv_wait(s_, lk.mutex()->s_, dl) ? cv_status::timeout : cv_status::no_timeout;
  }
  condition_variable_any real_;
  vsim::CvS s_;
};

// ----------------------------------------------------------------- thread
class vsim_thread
{
public:
  typedef thread::id id;
  vsim_thread() noexcept = default;
  template <class F,
            class... A,
            class = typename enable_if<!is_same<typename decay<F>::type, vsim_thread>::value>::type>
  explicit vsim_thread(F &&f, A &&...a)
  {
    auto call = make_shared<tuple<typename decay<F>::type, typename decay<A>::type...>>(
        std::forward<F>(f), std::forward<A>(a)...);
    function<void()> fn = [call]() {
      apply([](auto &&fn0, auto &&...args) { invoke(std::move(fn0), std::move(args)...); }, *call);
    };
    if (vsim::in_sim())
      tid_ = vsim::task_spawn(std::move(fn));
    else
      real_ = thread(std::move(fn));
  }
  vsim_thread(const vsim_thread &) = delete;
  vsim_thread(vsim_thread &&o) noexcept : tid_(o.tid_), real_(std::move(o.real_)) { o.tid_ = -1; }
  vsim_thread &operator=(vsim_thread &&o) noexcept
  {
    if (joinable())
      terminate();
    tid_   = o.tid_;
    o.tid_ = -1;
    real_  = std::move(o.real_);
    return *this;
  }
  ~vsim_thread()
  {
    if (joinable())
      terminate();
  }
  bool joinable() const noexcept { return tid_ >= 0 || real_.joinable(); }
  void join()
  {
    if (tid_ >= 0)
    {
      vsim::task_join(tid_);
      tid_ = -1;
    }
    else
      real_.join();
  }
  void detach()
  {
    if (tid_ >= 0)
      tid_ = -1;
    else
      real_.detach();
  }
  void swap(vsim_thread &o) noexcept
  {
    std::swap(tid_, o.tid_);
    real_.swap(o.real_);
  }
  static unsigned hardware_concurrency() noexcept { return 4; }

private:
  int tid_ = -1;
  thread real_;
};

namespace vsim_this_thread
{
inline void yield() noexcept
{
  if (vsim::in_sim())
    vsim::yield_now();
  else
    this_thread::yield();
}
template <class Rep, class Period>
inline void sleep_for(const chrono::duration<Rep, Period> &d)
{
  if (vsim::in_sim())
    vsim::sleep_for_ns(vsim_detail::sat_ns(d));
  else
    this_thread::sleep_for(d);
}
template <class Dur>
inline void sleep_until(const chrono::time_point<chrono::vsim_steady_clock, Dur> &tp)
{
  vsim::sleep_until_ns(vsim_detail::sat_ns(tp.time_since_epoch()));
}
inline thread::id get_id() noexcept
{
  return this_thread::get_id();
}
}  // namespace vsim_this_thread

// --------------------------------------------------------- promise/future
namespace vsim_detail
{
struct shared_state
{
  vsim_mutex m;
  vsim_condition_variable cv;
  bool ready = false;
  exception_ptr ex;
};
}  // namespace vsim_detail

template <class T>
class vsim_future;
template <class T>
class vsim_promise;

template <>
class vsim_future<void>
{
public:
  vsim_future() noexcept = default;
  vsim_future(vsim_future &&) noexcept            = default;
  vsim_future &operator=(vsim_future &&) noexcept = default;
  vsim_future(const vsim_future &)                = delete;
  bool valid() const noexcept { return (bool)st_; }
  void wait() const
  {
    unique_lock<vsim_mutex> lk(st_->m);
    st_->cv.wait(lk, [&] { return st_->ready; });
  }
  template <class Rep, class Period>
  future_status wait_for(const chrono::duration<Rep, Period> &d) const
  {
    unique_lock<vsim_mutex> lk(st_->m);
    return st_->cv.wait_for(lk, d, [&] { return st_->ready; }) ? future_status::ready
                                                               : future_status::timeout;
  }
  void get()
  {
    wait();
    auto st = std::move(st_);
    if (st->ex)
      rethrow_exception(st->ex);
  }

private:
  friend class vsim_promise<void>;
  explicit vsim_future(shared_ptr<vsim_detail::shared_state> st) : st_(std::move(st)) {}
  shared_ptr<vsim_detail::shared_state> st_;
};

template <>
class vsim_promise<void>
{
public:
  vsim_promise() : st_(make_shared<vsim_detail::shared_state>()) {}
  vsim_promise(vsim_promise &&) noexcept            = default;
  vsim_promise &operator=(vsim_promise &&) noexcept = default;
  vsim_promise(const vsim_promise &)                = delete;
  ~vsim_promise()
  {
    if (st_ && !st_.unique())
    {
      unique_lock<vsim_mutex> lk(st_->m);
      if (!st_->ready)
      {
        st_->ex    = make_exception_ptr(future_error(future_errc::broken_promise));
        st_->ready = true;
        st_->cv.notify_all();
      }
    }
  }
  vsim_future<void> get_future() { return vsim_future<void>(st_); }
  void set_value()
  {
    unique_lock<vsim_mutex> lk(st_->m);
    if (st_->ready)
      throw future_error(future_errc::promise_already_satisfied);
    st_->ready = true;
    st_->cv.notify_all();
  }
  void set_exception(exception_ptr p)
  {
    unique_lock<vsim_mutex> lk(st_->m);
    st_->ex    = p;
    st_->ready = true;
    st_->cv.notify_all();
  }

private:
  shared_ptr<vsim_detail::shared_state> st_;
};

// ---------------------------------------------------------- random_device
class vsim_random_device
{
public:
  typedef unsigned int result_type;
  vsim_random_device() {}
  explicit vsim_random_device(const string &) {}
  static constexpr result_type min() { return 0; }
  static constexpr result_type max() { return UINT_MAX; }
  double entropy() const noexcept { return 32.0; }
  result_type operator()() { return (result_type)vsim::entropy(); }
};

}  // namespace std

#define atomic vsim_atomic
#define atomic_flag vsim_atomic_flag
#define mutex vsim_mutex
#define recursive_mutex vsim_recursive_mutex
#define shared_mutex vsim_shared_mutex
#define shared_timed_mutex vsim_shared_mutex
#define timed_mutex vsim_timed_mutex
#define condition_variable vsim_condition_variable
#define thread vsim_thread
#define this_thread vsim_this_thread
#define promise vsim_promise
#define future vsim_future
#define steady_clock vsim_steady_clock
#define system_clock vsim_system_clock
#define random_device vsim_random_device

#endif  // VSIM_PREFIX_H
