// async engine - C17: observable instruments are read once per collection,
// removed callbacks are never invoked again, cumulative readers get the
// reported totals, delta readers the difference from what THEY were last given,
// gauges (observable, and synchronous through SyncMetricStorage(kGauge)) report
// the most recent value.
#include "harness.h"

#include "opentelemetry/context/context.h"
#include "opentelemetry/metrics/async_instruments.h"
#include "opentelemetry/metrics/observer_result.h"
#include "opentelemetry/sdk/metrics/meter_provider.h"
#include "opentelemetry/sdk/metrics/metric_reader.h"
#include "opentelemetry/sdk/metrics/state/metric_collector.h"
#include "opentelemetry/sdk/metrics/state/sync_metric_storage.h"
#include "opentelemetry/sdk/metrics/view/attributes_processor.h"
#include "opentelemetry/sdk/metrics/view/instrument_selector.h"
#include "opentelemetry/sdk/metrics/view/meter_selector.h"
#include "opentelemetry/sdk/metrics/view/view.h"

using namespace hz;
namespace nostd       = opentelemetry::nostd;
namespace sdkmet      = opentelemetry::sdk::metrics;
namespace metrics_api = opentelemetry::metrics;
namespace common      = opentelemetry::common;

namespace
{
enum OpKind
{
  OP_COLLECT = 1,  // a=reader
  OP_ADD_CB,       // a=instrument b=callback slot
  OP_REMOVE_CB,    // a=instrument b=callback slot
  OP_DESTROY,      // a=instrument
  OP_RECORD,       // a=series (sync gauge stratum) b=value id
  OP_SLEEP,
  OP_NEW_INSTRS    // a=count: further observable instruments created on the same meter
};
enum EvType
{
  E_COL_INV = 1,  // a=reader b=number
  E_COL_RET,
  E_CB,           // a=instrument b=slot c=invocation number (per registration slot)
  E_ADD_INV,      // a=instrument b=slot
  E_ADD_RET,
  E_REM_INV,
  E_REM_RET,
  E_DESTROY_INV,  // a=instrument
  E_DESTROY_RET,
  E_REC_INV,      // a=series b=value id
  E_REC_RET,
  E_COL_INSIDE  // marker recorded from inside a collection's serialised section
};
enum IKind
{
  I_OBS_COUNTER_LONG = 0,
  I_OBS_COUNTER_DOUBLE,
  I_OBS_UPDOWN_LONG,
  I_OBS_GAUGE_LONG,
  I_OBS_GAUGE_DOUBLE,
  I_OBS_UPDOWN_DOUBLE
};
const int kSlots = 3;
bool is_gauge(int k)
{
  return k == I_OBS_GAUGE_LONG || k == I_OBS_GAUGE_DOUBLE;
}
bool is_dbl(int k)
{
  return k == I_OBS_COUNTER_DOUBLE || k == I_OBS_GAUGE_DOUBLE || k == I_OBS_UPDOWN_DOUBLE;
}

// What callback (instrument i, slot s) reports at its n-th invocation (n from 0).
bool set_present(int i, int slot, int set, int64_t n)
{
  return ((n + set + slot + i) % 3) != 0;
}
bool g_counter_nonmono = false;  // set per run from the knob: counters report totals that go down too
// knob hash_twins: attribute "s" of series 2 is the bool true instead of the int64 2. Its
// std::hash equals that of the int64 1 of series 1, so the two attribute sets differ as maps
// while their hashes collide: only the equality comparison keeps the series apart.
bool g_hash_twins = false;
common::AttributeValue s_value(int set)
{
  return g_hash_twins && set == 2 ? common::AttributeValue(true) : common::AttributeValue((int64_t)set);
}
std::string s_canon(int set)
{
  return g_hash_twins && set == 2 ? std::string("s=b:1;") : fmt("s=i64:%d;", set);
}
int64_t observed_value(int kind, int i, int slot, int set, int64_t n)
{
  if ((kind == I_OBS_COUNTER_LONG || kind == I_OBS_COUNTER_DOUBLE) && g_counter_nonmono)
    return (n * 7919 + slot * 131 + set * 17 + i * 3) % 997;  // non-negative, not monotone
  if (kind == I_OBS_COUNTER_LONG || kind == I_OBS_COUNTER_DOUBLE)
    return 1000 * (slot + 1) + 100 * set + 5 * n * (n + 1) / 2 + n;  // strictly increasing in n
  // non-monotone
  return ((n * 7919 + slot * 131 + set * 17 + i * 3) % 997) - 300;
}
bool no_attr_series(int slot, int set)
{
  return slot == 2 && set == 2;  // observed through Observe(value) without attributes
}
std::string series_key(int slot, int set)
{
  if (no_attr_series(slot, set))
    return "";
  return fmt("cb=i64:%d;", slot) + s_canon(set);
}

struct CbState
{
  int instr = 0, slot = 0;
  int64_t invocations = 0;
};

struct PointV
{
  std::string attrs;
  long double value = 0;
  bool valid = true;
};
struct Collection
{
  int reader = 0, number = 0;
  size_t inv = 0, ret = 0;
  // position of the last event recorded INSIDE the collection's serialised section (the SDK
  // runs collections one at a time under MeterContext's lock): collections and observations
  // are ordered by it. The harness's own RET event is recorded after the lock is released and
  // may come arbitrarily later.
  size_t end = 0;
  std::map<std::string, std::vector<PointV>> by_stream;
};

struct World
{
  const Case *c = nullptr;
  std::unique_ptr<sdkmet::MeterProvider> prov;
  nostd::shared_ptr<metrics_api::Meter> meter;
  std::vector<std::shared_ptr<sdkmet::MetricReader>> readers;
  std::vector<nostd::shared_ptr<metrics_api::ObservableInstrument>> instrs;
  std::vector<nostd::shared_ptr<metrics_api::ObservableInstrument>> extra;  // OP_NEW_INSTRS
  std::vector<std::vector<CbState>> cb;  // [instr][slot]
  std::vector<Collection> collections;
  std::vector<int> col_count;
  // sync gauge stratum
  std::unique_ptr<sdkmet::SyncMetricStorage> storage;
  std::unique_ptr<sdkmet::AttributesProcessor> proc;
  std::vector<std::shared_ptr<sdkmet::CollectorHandle>> direct;
  int64_t sdk_start = 0;
  // collections of different readers are serialised by the SDK (MeterContext::meter_lock_ is
  // held across Meter::Collect); the direct-storage strata reproduce that
  std::mutex collect_m;
};
World *W = nullptr;

void callback_fn(metrics_api::ObserverResult result, void *state)
{
  CbState *st = static_cast<CbState *>(state);
  int kind    = (int)W->c->knob(fmt("itype%d", st->instr).c_str(), 0);
  int64_t n   = st->invocations++;
  ev(E_CB, st->instr, st->slot, n);
  vsim::yield();
  for (int set = 0; set < 3; ++set)
  {
    if (!set_present(st->instr, st->slot, set, n))
      continue;
    int64_t v = observed_value(kind, st->instr, st->slot, set, n);
    std::map<std::string, common::AttributeValue> attrs{{"cb", (int64_t)st->slot}, {"s", s_value(set)}};
    common::KeyValueIterableView<std::map<std::string, common::AttributeValue>> view(attrs);
    bool bare = no_attr_series(st->slot, set);
    // a quarter of the observations are preceded, in the same invocation, by a provisional
    // value for the same attribute set: the value observed last is the one that counts
    for (int pass = ((n + st->slot + set) % 4 == 0) ? 0 : 1; pass < 2; ++pass)
    {
    int64_t v_final = v;
    if (pass == 0)
    {
      v = v_final + 4242;
      vsim::probe("async.observed_twice_in_one_callback");
    }
    if (nostd::holds_alternative<nostd::shared_ptr<metrics_api::ObserverResultT<int64_t>>>(result))
    {
      auto &r = nostd::get<nostd::shared_ptr<metrics_api::ObserverResultT<int64_t>>>(result);
      // the attribute-less series alternates between Observe(value) and an empty attribute map
      if (bare && (n & 1))
      {
        std::map<std::string, int64_t> none;
        common::KeyValueIterableView<std::map<std::string, int64_t>> empty(none);
        r->Observe(v, empty);
      }
      else
        bare ? r->Observe(v) : r->Observe(v, view);
    }
    else
    {
      auto &r = nostd::get<nostd::shared_ptr<metrics_api::ObserverResultT<double>>>(result);
      if (bare && (n & 1))
      {
        std::map<std::string, int64_t> none;
        common::KeyValueIterableView<std::map<std::string, int64_t>> empty(none);
        r->Observe((double)v, empty);
      }
      else
        bare ? r->Observe((double)v) : r->Observe((double)v, view);
    }
    v = v_final;
    }
  }
  vsim::yield();
}

class PullReader final : public sdkmet::MetricReader
{
public:
  explicit PullReader(int temporality) : temporality_(temporality) {}
  sdkmet::AggregationTemporality GetAggregationTemporality(
      sdkmet::InstrumentType) const noexcept override
  {
    hz::HarnessCode hc_;
    // asked by every storage while it is collected, i.e. inside the serialised section
    ev(E_COL_INSIDE, 0, 0);
    return temporality_ ? sdkmet::AggregationTemporality::kCumulative
                        : sdkmet::AggregationTemporality::kDelta;
  }

private:
  bool OnForceFlush(std::chrono::microseconds) noexcept override { hz::HarnessCode hc_; return true; }
  bool OnShutDown(std::chrono::microseconds) noexcept override { hz::HarnessCode hc_; return true; }
  int temporality_;
};
class DirectCollector final : public sdkmet::CollectorHandle
{
public:
  explicit DirectCollector(int t) : t_(t) {}
  sdkmet::AggregationTemporality GetAggregationTemporality(sdkmet::InstrumentType) noexcept override
  {
    hz::HarnessCode hc_;
    // what MetricCollector does for a synchronous gauge: delta is not supported
    (void)t_;
    return sdkmet::AggregationTemporality::kCumulative;
  }

private:
  int t_;
};

struct CanonOwned
{
  std::string operator()(bool v) const { return std::string("b:") + (v ? "1" : "0"); }
  std::string operator()(int32_t v) const { return "i32:" + std::to_string(v); }
  std::string operator()(uint32_t v) const { return "u32:" + std::to_string(v); }
  std::string operator()(int64_t v) const { return "i64:" + std::to_string(v); }
  std::string operator()(uint64_t v) const { return "u64:" + std::to_string(v); }
  std::string operator()(double v) const { return "d:" + std::to_string(v); }
  std::string operator()(const std::string &v) const { return "s:" + v; }
  template <class T>
  std::string operator()(const std::vector<T> &) const
  {
    return "vec";
  }
};

void capture_md(const sdkmet::MetricData &md, Collection &c)
{
  auto &pts = c.by_stream[md.instrument_descriptor.name_];
  for (auto &pd : md.point_data_attr_)
  {
    PointV p;
    std::map<std::string, std::string> am;
    for (auto &kv : pd.attributes)
      am[kv.first] = nostd::visit(CanonOwned(), kv.second);
    for (auto &kv : am)
      p.attrs += kv.first + "=" + kv.second + ";";
    auto num = [](const sdkmet::ValueType &v) {
      return nostd::holds_alternative<int64_t>(v) ? (long double)nostd::get<int64_t>(v)
                                                   : (long double)nostd::get<double>(v);
    };
    if (nostd::holds_alternative<sdkmet::SumPointData>(pd.point_data))
      p.value = num(nostd::get<sdkmet::SumPointData>(pd.point_data).value_);
    else if (nostd::holds_alternative<sdkmet::LastValuePointData>(pd.point_data))
    {
      auto &lv = nostd::get<sdkmet::LastValuePointData>(pd.point_data);
      p.value  = num(lv.value_);
      p.valid  = lv.is_lastvalue_valid_;
    }
    else
      p.valid = false;
    pts.push_back(p);
  }
}

void do_collect(World &w, int r)
{
  Collection c;
  c.reader = r;
  c.number = w.col_count[r]++;
  ev(E_COL_INV, r, c.number);
  c.inv = hist().size() - 1;
  {
    InOp io;
    if (w.storage)
    {
      std::lock_guard<std::mutex> serialise(w.collect_m);
      nostd::span<std::shared_ptr<sdkmet::CollectorHandle>> cols(w.direct.data(), w.direct.size());
      w.storage->Collect(w.direct[r].get(), cols,
                         common::SystemTimestamp(std::chrono::nanoseconds(w.sdk_start)),
                         common::SystemTimestamp(std::chrono::system_clock::now()),
                         [&](sdkmet::MetricData md) {
                           capture_md(md, c);
                           return true;
                         });
    }
    else
      w.readers[r]->Collect([&](sdkmet::ResourceMetrics &rm) {
        for (auto &sm : rm.scope_metric_data_)
          for (auto &md : sm.metric_data_)
            capture_md(md, c);
        return true;
      });
  }
  ev(E_COL_RET, r, c.number);
  c.ret = hist().size() - 1;
  c.end = c.ret;
  {
    auto &H  = hist();
    int task = H[c.inv].task;
    for (size_t i = c.ret; i-- > c.inv + 1;)
      if (H[i].task == task && (H[i].type == E_COL_INSIDE || H[i].type == E_CB))
      {
        c.end = i;
        break;
      }
  }
  w.collections.push_back(c);
}

void run_program(World &w, const TaskProg &t)
{
  for (const Op &op : t.ops)
  {
    vsim::yield();
    switch (op.kind)
    {
      case OP_COLLECT:
        do_collect(w, (int)op.a);
        break;
      case OP_ADD_CB:
        if (w.instrs[op.a])
        {
          ev(E_ADD_INV, op.a, op.b);
          {
            InOp io;
            w.instrs[op.a]->AddCallback(callback_fn, &w.cb[op.a][op.b]);
          }
          ev(E_ADD_RET, op.a, op.b);
        }
        break;
      case OP_REMOVE_CB:
        if (w.instrs[op.a])
        {
          ev(E_REM_INV, op.a, op.b);
          {
            InOp io;
            w.instrs[op.a]->RemoveCallback(callback_fn, &w.cb[op.a][op.b]);
          }
          ev(E_REM_RET, op.a, op.b);
        }
        break;
      case OP_DESTROY:
        if (w.instrs[op.a])
        {
          ev(E_DESTROY_INV, op.a);
          {
            InOp io;
            w.instrs[op.a] = nostd::shared_ptr<metrics_api::ObservableInstrument>(nullptr);
          }
          ev(E_DESTROY_RET, op.a);
        }
        break;
      case OP_RECORD: {
        std::map<std::string, common::AttributeValue> attrs{{"s", s_value((int)op.a)}};
        common::KeyValueIterableView<std::map<std::string, common::AttributeValue>> view(attrs);
        ev(E_REC_INV, op.a, op.b);
        {
          InOp io;
          if (w.c->knob("itype0", 0) == I_OBS_GAUGE_DOUBLE)
            w.storage->RecordDouble((double)op.b, view, opentelemetry::context::Context{});
          else
            w.storage->RecordLong(op.b, view, opentelemetry::context::Context{});
        }
        ev(E_REC_RET, op.a, op.b);
        break;
      }
      case OP_SLEEP:
        std::this_thread::sleep_for(std::chrono::nanoseconds(op.a));
        break;
      case OP_NEW_INSTRS:
        // the application keeps creating instruments (none with callbacks) while readers
        // collect: the meter's stream registry grows - and rehashes - under the collectors
        if (w.meter)
          for (int64_t k = 0; k < op.a && k < 64; ++k)
          {
            std::string n = fmt("extra%zu", w.extra.size());
            nostd::shared_ptr<metrics_api::ObservableInstrument> ins;
            {
              InOp io;
              ins = (k & 1) ? w.meter->CreateInt64ObservableGauge(n)
                            : w.meter->CreateInt64ObservableCounter(n);
            }
            w.extra.push_back(ins);
            vsim::yield();
          }
        vsim::probe("async.instruments_created_during_collections");
        break;
    }
  }
}

World g_keep;

void body(const Case &c)
{
  hist().clear();
  g_counter_nonmono = c.knob("counter_nonmono", 0) != 0;
  g_hash_twins      = c.knob("hash_twins", 0) != 0;
  World w;
  W          = &w;
  w.c        = &c;
  int ninstr = (int)c.knob("ninstr", 1), nread = (int)c.knob("nreaders", 1);
  bool sync_gauge = c.knob("sync_gauge", 0) != 0;
  w.col_count.assign(nread, 0);
  if (sync_gauge)
  {
    bool dbl = c.knob("itype0", 0) == I_OBS_GAUGE_DOUBLE;
    sdkmet::InstrumentDescriptor d{"gauge", "", "", sdkmet::InstrumentType::kGauge,
                                   dbl ? sdkmet::InstrumentValueType::kDouble
                                       : sdkmet::InstrumentValueType::kLong};
    w.proc.reset(new sdkmet::DefaultAttributesProcessor);
    w.storage.reset(new sdkmet::SyncMetricStorage(d, sdkmet::AggregationType::kLastValue,
                                                  w.proc.get(), nullptr));
    for (int r = 0; r < nread; ++r)
      w.direct.emplace_back(new DirectCollector(0));
    w.sdk_start = std::chrono::system_clock::now().time_since_epoch().count();
  }
  else
  {
    w.prov.reset(new sdkmet::MeterProvider());
    for (int r = 0; r < nread; ++r)
    {
      std::shared_ptr<sdkmet::MetricReader> rd(
          new PullReader((int)c.knob(fmt("temp%d", r).c_str(), 0)));
      w.readers.push_back(rd);
      w.prov->AddMetricReader(rd);
    }
    // knob view<i>: 0 no view; 1 a view that spells out the instrument's default aggregation
    // (Sum / LastValue); 2 the same and renames the stream; 3 a renaming view with kDefault
    for (int i = 0; i < ninstr; ++i)
    {
      int vk = (int)c.knob(fmt("view%d", i).c_str(), 0);
      if (!vk)
        continue;
      int kind = (int)c.knob(fmt("itype%d", i).c_str(), 0);
      auto itype = is_gauge(kind) ? sdkmet::InstrumentType::kObservableGauge
                   : (kind == I_OBS_UPDOWN_LONG || kind == I_OBS_UPDOWN_DOUBLE)
                       ? sdkmet::InstrumentType::kObservableUpDownCounter
                       : sdkmet::InstrumentType::kObservableCounter;
      auto at = vk == 3 ? sdkmet::AggregationType::kDefault
                : is_gauge(kind) ? sdkmet::AggregationType::kLastValue
                                 : sdkmet::AggregationType::kSum;
      std::unique_ptr<sdkmet::InstrumentSelector> is(
          new sdkmet::InstrumentSelector(itype, fmt("obs%d", i), ""));
      std::unique_ptr<sdkmet::MeterSelector> ms(new sdkmet::MeterSelector("m", "", ""));
      std::unique_ptr<sdkmet::View> view(
          new sdkmet::View(vk >= 2 ? fmt("v_obs%d", i) : std::string(), "", "", at));
      w.prov->AddView(std::move(is), std::move(ms), std::move(view));
    }
    w.meter = w.prov->GetMeter("m");
    w.cb.resize(ninstr);
    for (int i = 0; i < ninstr; ++i)
    {
      std::string n = fmt("obs%d", i);
      switch ((int)c.knob(fmt("itype%d", i).c_str(), 0))
      {
        case I_OBS_COUNTER_LONG:
          w.instrs.push_back(w.meter->CreateInt64ObservableCounter(n));
          break;
        case I_OBS_COUNTER_DOUBLE:
          w.instrs.push_back(w.meter->CreateDoubleObservableCounter(n));
          break;
        case I_OBS_UPDOWN_LONG:
          w.instrs.push_back(w.meter->CreateInt64ObservableUpDownCounter(n));
          break;
        case I_OBS_GAUGE_LONG:
          w.instrs.push_back(w.meter->CreateInt64ObservableGauge(n));
          break;
        case I_OBS_UPDOWN_DOUBLE:
          w.instrs.push_back(w.meter->CreateDoubleObservableUpDownCounter(n));
          break;
        default:
          w.instrs.push_back(w.meter->CreateDoubleObservableGauge(n));
      }
      w.cb[i].resize(kSlots);
      for (int s = 0; s < kSlots; ++s)
      {
        w.cb[i][s].instr = i;
        w.cb[i][s].slot  = s;
      }
      // callbacks registered from the start
      int initial = (int)c.knob(fmt("initial_cb%d", i).c_str(), 1);
      for (int s = 0; s < kSlots; ++s)
        if ((initial >> s) & 1)
        {
          ev(E_ADD_INV, i, s);
          w.instrs[i]->AddCallback(callback_fn, &w.cb[i][s]);
          ev(E_ADD_RET, i, s);
        }
    }
  }
  run_tasks(c, [&](int, const TaskProg &t) { run_program(w, t); });
  for (int r = 0; r < nread; ++r)
    do_collect(w, r);
  w.instrs.clear();
  w.extra.clear();
  w.meter = nostd::shared_ptr<metrics_api::Meter>(nullptr);
  w.readers.clear();
  w.prov.reset();
  w.storage.reset();
  W                  = nullptr;
  g_keep.collections = w.collections;
}

// -------------------------------------------------------------------- oracle
void check(const Case &c, const vsim::RunResult &)
{
  g_counter_nonmono = c.knob("counter_nonmono", 0) != 0;
  g_hash_twins      = c.knob("hash_twins", 0) != 0;
  const auto &H = hist();
  World &w      = g_keep;
  int ninstr = (int)c.knob("ninstr", 1), nread = (int)c.knob("nreaders", 1);
  bool sync_gauge = c.knob("sync_gauge", 0) != 0;
  bool coarse     = !c.rc.clock_strict;

  if (sync_gauge)
  {
    // value ids are unique per series and increasing in program order of the single recorder
    // of that series; the reported value must be the latest Record that returned before the
    // collection was invoked, or one that overlapped it / was recorded while it ran
    struct Rec
    {
      int64_t series, id;
      size_t inv, ret;
    };
    std::vector<Rec> recs;
    for (size_t i = 0; i < H.size(); ++i)
    {
      if (H[i].type == E_REC_INV)
        recs.push_back({H[i].a, H[i].b, i, SIZE_MAX});
      else if (H[i].type == E_REC_RET)
        for (auto &r : recs)
          if (r.series == H[i].a && r.id == H[i].b)
            r.ret = i;
    }
    for (auto &col : w.collections)
    {
      auto it = col.by_stream.find("gauge");
      std::map<std::string, long double> got;
      if (it != col.by_stream.end())
        for (auto &p : it->second)
          got[p.attrs] = p.value;
      for (int s = 0; s < 3; ++s)
      {
        std::string key = s_canon(s);
        const Rec *latest = nullptr;
        std::set<int64_t> candidates;
        for (auto &r : recs)
        {
          if (r.series != s)
            continue;
          if (r.ret < col.inv)
          {
            if (!latest || r.ret > latest->ret)
              latest = &r;
          }
          else if (r.inv < col.ret)
            candidates.insert(r.id);
        }
        if (latest)
          candidates.insert(latest->id);
        auto g = got.find(key);
        if (g == got.end())
        {
          if (latest)
            vsim::report("C17.gauge_missing",
                         fmt("reader %d collection %d: series %d was recorded before the "
                             "collection but is not reported",
                             col.reader, col.number, s));
          continue;
        }
        if (!candidates.count((int64_t)g->second))
          vsim::report(coarse ? "C17.stale_lastvalue.tied_timestamps" : "C17.gauge_not_latest",
                       fmt("reader %d collection %d: series %d reports %lld, latest recorded "
                           "value is %lld",
                           col.reader, col.number, s, (long long)g->second,
                           (long long)(latest ? latest->id : -1)));
      }
    }
    return;
  }

  // ---- registration intervals per (instrument, slot)
  struct Reg
  {
    size_t add_inv = 0, add_ret = 0, rem_inv = SIZE_MAX, rem_ret = SIZE_MAX;
  };
  std::map<std::pair<int, int>, std::vector<Reg>> regs;
  std::vector<size_t> destroy_inv(ninstr, SIZE_MAX), destroy_ret(ninstr, SIZE_MAX);
  for (size_t i = 0; i < H.size(); ++i)
  {
    const Ev &e = H[i];
    switch (e.type)
    {
      case E_ADD_INV: {
        Reg r;
        r.add_inv = i;
        r.add_ret = SIZE_MAX;
        regs[{(int)e.a, (int)e.b}].push_back(r);
        break;
      }
      case E_ADD_RET:
        regs[{(int)e.a, (int)e.b}].back().add_ret = i;
        break;
      case E_REM_INV:
        // RemoveCallback removes every registration of (callback, state): close all open ones
        for (auto &r : regs[{(int)e.a, (int)e.b}])
          if (r.rem_inv == SIZE_MAX)
            r.rem_inv = i;
        break;
      case E_REM_RET:
        for (auto &r : regs[{(int)e.a, (int)e.b}])
          if (r.rem_ret == SIZE_MAX && r.rem_inv != SIZE_MAX)
            r.rem_ret = i;
        break;
      case E_DESTROY_INV:
        destroy_inv[e.a] = i;
        break;
      case E_DESTROY_RET:
        destroy_ret[e.a] = i;
        break;
    }
  }
  // ---- invocations per collection
  struct Inv
  {
    int instr, slot;
    int64_t n;
    size_t at;
  };
  // global order of observations: (at, instr, slot, n)
  std::vector<Inv> all_inv;
  for (size_t i = 0; i < H.size(); ++i)
    if (H[i].type == E_CB)
      all_inv.push_back({(int)H[i].a, (int)H[i].b, H[i].c, i});
  // collections in the order the SDK serialised them = order of their first callback / return
  std::vector<const Collection *> cols;
  for (auto &col : w.collections)
    cols.push_back(&col);
  std::sort(cols.begin(), cols.end(),
            [](const Collection *a, const Collection *b) { return a->end < b->end; });

  for (auto *col : cols)
  {
    int task = H[col->inv].task;
    std::map<std::pair<int, int>, int> count;
    for (auto &iv : all_inv)
      if (iv.at > col->inv && iv.at < col->ret && H[iv.at].task == task)
        count[{iv.instr, iv.slot}]++;
    for (int i = 0; i < ninstr; ++i)
      for (int s = 0; s < kSlots; ++s)
      {
        int n = count.count({i, s}) ? count[{i, s}] : 0;
        // number of registrations certainly active / possibly active during this collection
        int must = 0, may = 0;
        for (auto &r : regs[{i, s}])
        {
          bool certainly = r.add_ret < col->inv && r.rem_inv > col->ret && destroy_inv[i] > col->ret;
          bool possibly  = r.add_inv < col->ret && r.rem_ret > col->inv && destroy_ret[i] > col->inv;
          if (certainly)
            ++must;
          if (possibly)
            ++may;
        }
        if (n < must)
          vsim::report("C17.callback_not_invoked",
                       fmt("reader %d collection %d: callback %d of instrument %d is registered "
                           "%d time(s) but was invoked %d time(s)",
                           col->reader, col->number, s, i, must, n));
        if (n > may)
          vsim::report(may == 0 ? "C17.callback_after_removal" : "C17.callback_invoked_twice",
                       fmt("reader %d collection %d: callback %d of instrument %d invoked %d "
                           "time(s), at most %d registration(s) could be active",
                           col->reader, col->number, s, i, n, may));
      }
  }
  // no invocation is entered after RemoveCallback / destruction returned
  for (auto &iv : all_inv)
  {
    bool active = false;
    for (auto &r : regs[{iv.instr, iv.slot}])
      if (r.add_inv < iv.at && r.rem_ret > iv.at)
        active = true;
    if (!active || destroy_ret[iv.instr] < iv.at)
      vsim::report("C17.callback_after_removal",
                   fmt("callback %d of instrument %d was invoked after it had been removed (or its "
                       "instrument destroyed)",
                       iv.slot, iv.instr));
  }

  // ---- values. Observations are applied in the order the callbacks ran.
  for (int i = 0; i < ninstr; ++i)
  {
    int kind           = (int)c.knob(fmt("itype%d", i).c_str(), 0);
    std::string stream = fmt(c.knob(fmt("view%d", i).c_str(), 0) >= 2 ? "v_obs%d" : "obs%d", i);
    bool after_destroy_seen = false;
    // per series: the observed values in order, with the position of the observation
    struct Obs
    {
      size_t at;
      int64_t value;
    };
    std::map<std::string, std::vector<Obs>> observed;
    for (auto &iv : all_inv)
      if (iv.instr == i)
        for (int set = 0; set < 3; ++set)
          if (set_present(i, iv.slot, set, iv.n))
            observed[series_key(iv.slot, set)].push_back(
                {iv.at, observed_value(kind, i, iv.slot, set, iv.n)});
    for (int r = 0; r < nread; ++r)
    {
      int temp = (int)c.knob(fmt("temp%d", r).c_str(), 0);
      std::map<std::string, long double> last_given_total;  // delta reader: total at its last report
      std::map<std::string, size_t> last_seen_at;           // position up to which r has consumed
      size_t prev_col_end = 0;
      for (auto *col : cols)
      {
        if (col->reader != r)
          continue;
        if (destroy_inv[i] < col->ret)
          after_destroy_seen = true;
        if (after_destroy_seen)
          continue;  // values after the instrument is gone are not specified
        std::map<std::string, PointV> got;
        auto it = col->by_stream.find(stream);
        if (it != col->by_stream.end())
          for (auto &p : it->second)
          {
            if (got.count(p.attrs))
              vsim::report("C17.duplicate_series", fmt("reader %d: stream %s has two points for "
                                                       "{%s}",
                                                       r, stream.c_str(), p.attrs.c_str()));
            got[p.attrs] = p;
          }
        for (auto &kv : observed)
        {
          // observations of this series up to the end of this collection
          const Obs *latest = nullptr, *latest_before_prev = nullptr;
          bool fresh        = false;  // observed since this reader's previous collection
          for (auto &o : kv.second)
          {
            if (o.at <= col->end)
            {
              latest = &o;
              if (o.at > prev_col_end)
                fresh = true;
            }
            if (o.at <= prev_col_end)
              latest_before_prev = &o;
          }
          if (!latest)
            continue;
          auto g = got.find(kv.first);
          // observed during this very collection (by its own callbacks)
          bool in_this = latest->at > col->inv && H[latest->at].task == H[col->inv].task;
          if (is_gauge(kind))
          {
            if (temp == 1 || fresh)
            {
              if (g == got.end())
              {
                if (in_this)
                  vsim::report("C17.gauge_missing",
                               fmt("reader %d collection %d: observed series {%s} of %s is not "
                                   "reported",
                                   r, col->number, kv.first.c_str(), stream.c_str()));
              }
              else if ((long double)latest->value != g->second.value)
                vsim::report(coarse ? "C17.stale_lastvalue.tied_timestamps" : "C17.gauge_not_latest",
                             fmt("reader %d collection %d: gauge series {%s} reports %Lg, the most "
                                 "recent observation is %lld",
                                 r, col->number, kv.first.c_str(), g->second.value,
                                 (long long)latest->value));
            }
          }
          else if (temp == 1)
          {
            if (g == got.end())
            {
              if (in_this)
                vsim::report("C17.total_missing",
                             fmt("reader %d collection %d: observed series {%s} of %s is not "
                                 "reported",
                                 r, col->number, kv.first.c_str(), stream.c_str()));
            }
            else if ((long double)latest->value != g->second.value)
              vsim::report("C17.cumulative_total",
                           fmt("reader %d collection %d: series {%s} reports %Lg, the reported "
                               "total is %lld",
                               r, col->number, kv.first.c_str(), g->second.value,
                               (long long)latest->value));
          }
          else
          {
            long double base = latest_before_prev ? (long double)latest_before_prev->value : 0;
            long double exp  = (long double)latest->value - base;
            if (g == got.end())
            {
              if (fresh && exp != 0 && in_this)
                vsim::report("C17.delta_missing",
                             fmt("reader %d collection %d: series {%s} of %s changed by %Lg since "
                                 "this reader's last collection but is not reported",
                                 r, col->number, kv.first.c_str(), stream.c_str(), exp));
            }
            else if (g->second.value != exp)
              vsim::report("C17.delta_value",
                           fmt("reader %d collection %d: series {%s} reports delta %Lg, expected "
                               "%Lg (total %lld minus %Lg last given to this reader)",
                               r, col->number, kv.first.c_str(), g->second.value, exp,
                               (long long)latest->value, base));
          }
        }
        prev_col_end = col->end;
      }
      (void)last_given_total;
      (void)last_seen_at;
    }
  }
}

void generate(const std::string &, Rng &wl, Rng &fl, Case &c)
{
  vsim::SimKnobs sk;
  sk.allow_call_points = true;
  sk.allow_stall        = true;
  sk.allow_coarse_clock = false;
  sk.faults_on          = fl.chance(0.5);
  sk.stall_cap          = 500;
  sk.typical_len        = 1200;
  int nread             = (int)wl.range(1, 3);
  c.set("nreaders", nread);
  for (int r = 0; r < nread; ++r)
    c.set(fmt("temp%d", r).c_str(), (int64_t)wl.below(2));
  if (wl.chance(0.25))
    c.set("hash_twins", 1);  // series 2 is keyed by a value whose hash collides with series 1's
  bool sync_gauge = wl.chance(0.2);
  if (sync_gauge)
  {
    c.set("sync_gauge", 1);
    c.set("ninstr", 1);
    c.set("itype0", wl.chance(0.5) ? I_OBS_GAUGE_LONG : I_OBS_GAUGE_DOUBLE);
    c.stratum = "sync_gauge";
    // one recorder per series keeps "most recent" unambiguous per series
    int nrec = (int)wl.range(1, 3);
    for (int t = 0; t < nrec; ++t)
    {
      TaskProg p;
      int n = (int)wl.range(1, 8);
      for (int j = 0; j < n; ++j)
      {
        if (wl.chance(0.15))
          p.ops.push_back({OP_SLEEP, (int64_t)wl.range(1, 1000) * 1000, 0, 0, 0});
        p.ops.push_back({OP_RECORD, t, (int64_t)(t * 1000 + j + 1), 0, 0});
      }
      c.tasks.push_back(p);
    }
  }
  else
  {
    int ninstr = (int)wl.range(1, 2);
    c.set("ninstr", ninstr);
    for (int i = 0; i < ninstr; ++i)
    {
      c.set(fmt("itype%d", i).c_str(), (int64_t)wl.below(6));
      c.set(fmt("view%d", i).c_str(), wl.chance(0.35) ? (int64_t)wl.range(1, 3) : 0);
      c.set(fmt("initial_cb%d", i).c_str(), (int64_t)wl.range(0, 7));
    }
    c.stratum = "observable";
    if (wl.chance(0.3))
    {
      c.set("counter_nonmono", 1);
      c.stratum = "observable.totals_go_down";
    }
    // control task: add / remove callbacks, destroy instruments
    TaskProg ctl;
    int n = (int)wl.range(0, vsim::tier_scale() > 1 && wl.chance(0.5) ? 10 : 6);
    for (int j = 0; j < n; ++j)
    {
      double r = wl.real();
      int64_t i = (int64_t)wl.below(ninstr), s = (int64_t)wl.below(kSlots);
      if (r < 0.15)
        ctl.ops.push_back({OP_SLEEP, (int64_t)wl.range(1, 1000) * 1000, 0, 0, 0});
      else if (r < 0.55)
        ctl.ops.push_back({OP_ADD_CB, i, s, 0, 0});
      else if (r < 0.92)
        ctl.ops.push_back({OP_REMOVE_CB, i, s, 0, 0});
      else
        ctl.ops.push_back({OP_DESTROY, i, 0, 0, 0});
    }
    if (wl.chance(0.2))
    {
      static const int64_t counts[] = {14, 20, 31, 45};
      ctl.ops.insert(ctl.ops.begin() + (long)wl.below(ctl.ops.size() + 1),
                     {OP_NEW_INSTRS, counts[wl.below(4)], 0, 0, 0});
      c.stratum += ".many_instruments";
    }
    c.tasks.push_back(ctl);
  }
  for (int r = 0; r < nread; ++r)
  {
    TaskProg p;
    int n = (int)wl.range(0, vsim::tier_scale() > 1 && wl.chance(0.5) ? 8 : 5);
    for (int j = 0; j < n; ++j)
    {
      if (wl.chance(0.3))
        p.ops.push_back({OP_SLEEP, (int64_t)wl.range(1, 1000) * 1000, 0, 0, 0});
      p.ops.push_back({OP_COLLECT, r, 0, 0, 0});
    }
    c.tasks.push_back(p);
  }
  // clock strata: strictly increasing reads (the verdict on the stated quantifier), and a
  // minority stratum with tied reads
  bool coarse = wl.chance(0.15);
  vsim::draw_run_config(fl, sk, c.rc);
  c.rc.clock_strict = !coarse;
  if (coarse)
  {
    c.rc.cost_ns = 0;  // nothing else advances the clock either: reads really tie
    c.stratum += ".clock_coarse";
  }
  c.rc.budget1 = 60000;
  c.rc.budget2 = 120000;
}

std::string describe_op(const Case &, int, const Op &op)
{
  switch (op.kind)
  {
    case OP_COLLECT:
      return fmt("reader %lld: Collect", (long long)op.a);
    case OP_ADD_CB:
      return fmt("obs%lld.AddCallback(callback %lld)", (long long)op.a, (long long)op.b);
    case OP_REMOVE_CB:
      return fmt("obs%lld.RemoveCallback(callback %lld)", (long long)op.a, (long long)op.b);
    case OP_DESTROY:
      return fmt("destroy obs%lld", (long long)op.a);
    case OP_RECORD:
      return fmt("gauge.Record(%lld, {s=%lld})", (long long)op.b, (long long)op.a);
    case OP_NEW_INSTRS:
      return fmt("create %lld more observable instruments on the meter", (long long)op.a);
    case OP_SLEEP:
      return fmt("sleep %.3f ms (simulated)", op.a / 1e6);
  }
  return "?";
}
std::string describe_fault(const Case &, const Fault &)
{
  return "";
}

const char *const kProps[] = {"C17", nullptr};
const std::pair<const char *, int64_t> kShrink[] = {{"nreaders", 1}, {"ninstr", 1}, {nullptr, 0}};
const char *const kReal[] = {"sdk/metrics/async_instruments.cc, observer_result.h",
                             "sdk/metrics/state/observable_registry.cc",
                             "sdk/metrics/state/async_metric_storage.h, temporal_metric_storage.cc",
                             "sdk/metrics/aggregation/lastvalue_aggregation.cc, sum_aggregation.cc",
                             "sdk/metrics/meter.cc, meter_context.cc, metric_collector.cc",
                             "sdk/metrics/state/sync_metric_storage.h (kGauge / kLastValue, driven "
                             "directly: the sync Gauge instrument API is ABI v2 only)",
                             nullptr};
const char *const kStub[] = {"observable callbacks (scripted totals as a function of the invocation "
                             "number, attribute sets that come and go, yields inside)",
                             "pull MetricReader; CollectorHandle stubs for the sync gauge stratum", nullptr};
}  // namespace

namespace vsim
{
const EngineDesc g_engine = {
    "async",
    kProps,
    generate,
    body,
    check,
    describe_op,
    describe_fault,
    kShrink,
    kReal,
    kStub,
    "one run = MeterProvider with 1-3 pull readers of mixed temporality each collected from its "
    "own task, 1-2 observable instruments (counter long/double, up-down counter, gauge "
    "long/double) with up to 3 callbacks reporting scripted values for attribute sets that "
    "appear and disappear, and a control task adding / removing callbacks and destroying "
    "instruments while collections run; or (20%) a SyncMetricStorage(kGauge, kLastValue) "
    "recorded by 1-3 tasks and collected by 1-3 stub collectors; clock strata: strictly "
    "increasing reads (85%) and tied reads (15%); in 25% of the runs one series is keyed by a "
    "value of another type whose hash collides with a sibling series' value; distinct = distinct (workload hash, trace "
    "hash); non-trivial = >= 2 tasks and >= 1 context switch while a task was inside "
    "Collect/AddCallback/RemoveCallback/Record"};
}
