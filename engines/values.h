// values.h - attribute values over every AttributeValue alternative, built in
// short-lived caller storage that is overwritten and freed as soon as the API
// call returns; canonical forms for comparing what the SDK kept.
#pragma once
#include "harness.h"

#include "opentelemetry/common/attribute_value.h"
#include "opentelemetry/common/key_value_iterable.h"
#include "opentelemetry/sdk/common/attribute_utils.h"

namespace val
{
namespace nostd = opentelemetry::nostd;
using opentelemetry::common::AttributeValue;
using opentelemetry::sdk::common::OwnedAttributeValue;

const int kAlts = 16;

// Caller-side storage. release() overwrites every block with 0xDD and frees it.
// overwrite_and_retain() is for APIs that are KNOWN to keep views (logs, finding F8): the
// caller's bytes are replaced by a marker but the memory stays valid, so that reading the
// stale view is a wrong value to compare, not an ASan abort.
enum BlockKind
{
  BK_RAW = 0,   // numeric array / bytes: marker byte 0x5A (bool arrays: 0x01)
  BK_CHARS,     // characters: marker 'Z'
  BK_CSTR,      // NUL terminated characters: marker 'Z', terminator kept
  BK_BOOLS,     // bool array: marker true
  BK_VIEWS      // array of string_view: left intact (its character blocks are overwritten)
};
struct Scratch
{
  struct Block
  {
    void *p;
    size_t n;
    int kind;
  };
  std::vector<Block> blocks;
  void *alloc(size_t n, int kind = BK_RAW)
  {
    void *p = malloc(n ? n : 1);
    blocks.push_back({p, n, kind});
    return p;
  }
  const char *str(const std::string &s, bool nul_terminated = false)
  {
    char *p = static_cast<char *>(
        alloc(s.size() + (nul_terminated ? 1 : 0), nul_terminated ? BK_CSTR : BK_CHARS));
    memcpy(p, s.data(), s.size());
    if (nul_terminated)
      p[s.size()] = 0;
    return p;
  }
  nostd::string_view view(const std::string &s) { return nostd::string_view(str(s), s.size()); }
  void release()
  {
    for (auto &b : blocks)
    {
      memset(b.p, 0xDD, b.n);
      free(b.p);
    }
    blocks.clear();
  }
  void overwrite_and_retain(std::vector<Block> &keep)
  {
    for (auto &b : blocks)
    {
      switch (b.kind)
      {
        case BK_CHARS:
          memset(b.p, 'Z', b.n);
          break;
        case BK_CSTR:
          if (b.n)
            memset(b.p, 'Z', b.n - 1);
          break;
        case BK_BOOLS:
          memset(b.p, 1, b.n);
          break;
        case BK_VIEWS:
          break;
        default:
          memset(b.p, 0x5A, b.n);
      }
      keep.push_back(b);
    }
    blocks.clear();
  }
  ~Scratch() { release(); }
};

inline uint64_t h64(uint64_t x)
{
  return vsim::splitmix64(x);
}

inline std::string gen_string(uint64_t seed, bool allow_nul)
{
  static const int lens[] = {0, 1, 5, 40};
  int len                 = lens[h64(seed) % 4];
  std::string s;
  for (int i = 0; i < len; ++i)
  {
    uint64_t r = h64(seed + 17 * (i + 1));
    char ch    = (char)('a' + r % 26);
    if (allow_nul && r % 11 == 0)
      ch = 0;
    if (r % 13 == 0)
      ch = (char)0xc3;  // non-ASCII byte
    s.push_back(ch);
  }
  return s;
}
inline int gen_len(uint64_t seed)
{
  static const int lens[] = {0, 1, 3, 100};
  return lens[h64(seed ^ 0x55) % 4];
}

inline std::string hexs(const std::string &s)
{
  static const char *d = "0123456789abcdef";
  std::string o;
  for (unsigned char ch : s)
  {
    o.push_back(d[ch >> 4]);
    o.push_back(d[ch & 15]);
  }
  return o;
}

template <class T>
inline std::string num(T v)
{
  return std::to_string(v);
}
inline std::string dbl(double v)
{
  char b[64];
  snprintf(b, sizeof b, "%a", v);
  return b;
}
inline double gen_double(uint64_t seed)
{
  static const double specials[] = {0.0, -0.0, 1.5, -2.25, 1e300, 5e-324, 3.141592653589793};
  uint64_t r                     = h64(seed);
  return specials[r % 7] + (double)((r >> 8) % 3);
}

// Canonical form of the owned value the SDK must hold for (alt, seed).
inline std::string expect(int alt, uint64_t seed)
{
  uint64_t r = h64(seed);
  switch (alt)
  {
    case 0:
      return std::string("b:") + ((r & 1) ? "1" : "0");
    case 1:
      return "i32:" + num((int32_t)r);
    case 2:
      return "i64:" + num((int64_t)r);
    case 3:
      return "u32:" + num((uint32_t)r);
    case 4:
      return "d:" + dbl(gen_double(seed));
    case 5:
      return "s:" + hexs(gen_string(seed, false));
    case 6:
      return "s:" + hexs(gen_string(seed, true));
    case 13:
      return "u64:" + num((uint64_t)r);
  }
  int n         = gen_len(seed);
  std::string o = alt == 7    ? "vb:["
                  : alt == 8  ? "vi32:["
                  : alt == 9  ? "vi64:["
                  : alt == 10 ? "vu32:["
                  : alt == 11 ? "vd:["
                  : alt == 12 ? "vs:["
                  : alt == 14 ? "vu64:["
                              : "vu8:[";
  for (int i = 0; i < n; ++i)
  {
    uint64_t e = h64(seed + 1000 + i);
    switch (alt)
    {
      case 7:
        o += (e & 1) ? "1" : "0";
        break;
      case 8:
        o += num((int32_t)e);
        break;
      case 9:
        o += num((int64_t)e);
        break;
      case 10:
        o += num((uint32_t)e);
        break;
      case 11:
        o += dbl(gen_double(seed + 1000 + i));
        break;
      case 12:
        o += hexs(gen_string(seed + 1000 + i, true));
        break;
      case 14:
        o += num((uint64_t)e);
        break;
      default:
        o += num((unsigned)(uint8_t)e);
        break;
    }
    o += ",";
  }
  return o + "]";
}

inline bool is_scalar(int alt)
{
  return alt <= 4 || alt == 13;
}

// Canonical form the value reads as after overwrite_and_retain() (a stale view).
inline std::string expect_marker(int alt, uint64_t seed)
{
  if (is_scalar(alt))
    return expect(alt, seed);
  if (alt == 5)
    return "s:" + hexs(std::string(gen_string(seed, false).size(), 'Z'));
  if (alt == 6)
    return "s:" + hexs(std::string(gen_string(seed, true).size(), 'Z'));
  int n         = gen_len(seed);
  std::string o = alt == 7    ? "vb:["
                  : alt == 8  ? "vi32:["
                  : alt == 9  ? "vi64:["
                  : alt == 10 ? "vu32:["
                  : alt == 11 ? "vd:["
                  : alt == 12 ? "vs:["
                  : alt == 14 ? "vu64:["
                              : "vu8:[";
  for (int i = 0; i < n; ++i)
  {
    switch (alt)
    {
      case 7:
        o += "1";
        break;
      case 8:
        o += num((int32_t)0x5A5A5A5A);
        break;
      case 9:
        o += num((int64_t)0x5A5A5A5A5A5A5A5All);
        break;
      case 10:
        o += num((uint32_t)0x5A5A5A5Au);
        break;
      case 11: {
        uint64_t bits = 0x5A5A5A5A5A5A5A5Aull;
        double d;
        memcpy(&d, &bits, 8);
        o += dbl(d);
        break;
      }
      case 12:
        o += hexs(std::string(gen_string(seed + 1000 + i, true).size(), 'Z'));
        break;
      case 14:
        o += num((uint64_t)0x5A5A5A5A5A5A5A5Aull);
        break;
      default:
        o += num((unsigned)0x5A);
        break;
    }
    o += ",";
  }
  return o + "]";
}

// Builds the non-owning AttributeValue for (alt, seed) in scratch storage.
inline AttributeValue build(int alt, uint64_t seed, Scratch &sc)
{
  uint64_t r = h64(seed);
  switch (alt)
  {
    case 0:
      return AttributeValue((bool)(r & 1));
    case 1:
      return AttributeValue((int32_t)r);
    case 2:
      return AttributeValue((int64_t)r);
    case 3:
      return AttributeValue((uint32_t)r);
    case 4:
      return AttributeValue(gen_double(seed));
    case 5:
      return AttributeValue(sc.str(gen_string(seed, false), true));
    case 6:
      return AttributeValue(sc.view(gen_string(seed, true)));
    case 13:
      return AttributeValue((uint64_t)r);
  }
  int n = gen_len(seed);
  switch (alt)
  {
    case 7: {
      bool *p = static_cast<bool *>(sc.alloc(n * sizeof(bool), BK_BOOLS));
      for (int i = 0; i < n; ++i)
        p[i] = h64(seed + 1000 + i) & 1;
      return AttributeValue(nostd::span<const bool>(p, n));
    }
    case 8: {
      int32_t *p = static_cast<int32_t *>(sc.alloc(n * sizeof(int32_t)));
      for (int i = 0; i < n; ++i)
        p[i] = (int32_t)h64(seed + 1000 + i);
      return AttributeValue(nostd::span<const int32_t>(p, n));
    }
    case 9: {
      int64_t *p = static_cast<int64_t *>(sc.alloc(n * sizeof(int64_t)));
      for (int i = 0; i < n; ++i)
        p[i] = (int64_t)h64(seed + 1000 + i);
      return AttributeValue(nostd::span<const int64_t>(p, n));
    }
    case 10: {
      uint32_t *p = static_cast<uint32_t *>(sc.alloc(n * sizeof(uint32_t)));
      for (int i = 0; i < n; ++i)
        p[i] = (uint32_t)h64(seed + 1000 + i);
      return AttributeValue(nostd::span<const uint32_t>(p, n));
    }
    case 11: {
      double *p = static_cast<double *>(sc.alloc(n * sizeof(double)));
      for (int i = 0; i < n; ++i)
        p[i] = gen_double(seed + 1000 + i);
      return AttributeValue(nostd::span<const double>(p, n));
    }
    case 12: {
      nostd::string_view *p =
          static_cast<nostd::string_view *>(sc.alloc(n * sizeof(nostd::string_view), BK_VIEWS));
      for (int i = 0; i < n; ++i)
        new (&p[i]) nostd::string_view(sc.view(gen_string(seed + 1000 + i, true)));
      return AttributeValue(nostd::span<const nostd::string_view>(p, n));
    }
    case 14: {
      uint64_t *p = static_cast<uint64_t *>(sc.alloc(n * sizeof(uint64_t)));
      for (int i = 0; i < n; ++i)
        p[i] = (uint64_t)h64(seed + 1000 + i);
      return AttributeValue(nostd::span<const uint64_t>(p, n));
    }
    default: {
      uint8_t *p = static_cast<uint8_t *>(sc.alloc(n));
      for (int i = 0; i < n; ++i)
        p[i] = (uint8_t)h64(seed + 1000 + i);
      return AttributeValue(nostd::span<const uint8_t>(p, n));
    }
  }
}

struct CanonOwned
{
  std::string operator()(bool v) const { return std::string("b:") + (v ? "1" : "0"); }
  std::string operator()(int32_t v) const { return "i32:" + num(v); }
  std::string operator()(uint32_t v) const { return "u32:" + num(v); }
  std::string operator()(int64_t v) const { return "i64:" + num(v); }
  std::string operator()(uint64_t v) const { return "u64:" + num(v); }
  std::string operator()(double v) const { return "d:" + dbl(v); }
  std::string operator()(const std::string &v) const { return "s:" + hexs(v); }
  std::string operator()(const std::vector<bool> &v) const
  {
    std::string o = "vb:[";
    for (bool b : v)
      o += b ? "1," : "0,";
    return o + "]";
  }
  template <class T>
  std::string vec(const char *tag, const std::vector<T> &v) const
  {
    std::string o = tag;
    for (auto &e : v)
      o += num(e) + ",";
    return o + "]";
  }
  std::string operator()(const std::vector<int32_t> &v) const { return vec("vi32:[", v); }
  std::string operator()(const std::vector<uint32_t> &v) const { return vec("vu32:[", v); }
  std::string operator()(const std::vector<int64_t> &v) const { return vec("vi64:[", v); }
  std::string operator()(const std::vector<uint64_t> &v) const { return vec("vu64:[", v); }
  std::string operator()(const std::vector<uint8_t> &v) const
  {
    std::string o = "vu8:[";
    for (auto e : v)
      o += num((unsigned)e) + ",";
    return o + "]";
  }
  std::string operator()(const std::vector<double> &v) const
  {
    std::string o = "vd:[";
    for (auto e : v)
      o += dbl(e) + ",";
    return o + "]";
  }
  std::string operator()(const std::vector<std::string> &v) const
  {
    std::string o = "vs:[";
    for (auto &e : v)
      o += hexs(e) + ",";
    return o + "]";
  }
};
inline std::string canon(const OwnedAttributeValue &v)
{
  return nostd::visit(CanonOwned(), v);
}

// Canonical form of a NON-owning value as it reads right now (logs keep views).
struct CanonView
{
  std::string operator()(bool v) const { return std::string("b:") + (v ? "1" : "0"); }
  std::string operator()(int32_t v) const { return "i32:" + num(v); }
  std::string operator()(uint32_t v) const { return "u32:" + num(v); }
  std::string operator()(int64_t v) const { return "i64:" + num(v); }
  std::string operator()(uint64_t v) const { return "u64:" + num(v); }
  std::string operator()(double v) const { return "d:" + dbl(v); }
  std::string operator()(const char *v) const { return "s:" + hexs(v ? std::string(v) : ""); }
  std::string operator()(nostd::string_view v) const
  {
    return "s:" + hexs(std::string(v.data(), v.size()));
  }
  std::string operator()(nostd::span<const bool> v) const
  {
    std::string o = "vb:[";
    for (bool b : v)
      o += b ? "1," : "0,";
    return o + "]";
  }
  template <class T>
  std::string sp(const char *tag, nostd::span<const T> v) const
  {
    std::string o = tag;
    for (auto &e : v)
      o += num(e) + ",";
    return o + "]";
  }
  std::string operator()(nostd::span<const int32_t> v) const { return sp("vi32:[", v); }
  std::string operator()(nostd::span<const uint32_t> v) const { return sp("vu32:[", v); }
  std::string operator()(nostd::span<const int64_t> v) const { return sp("vi64:[", v); }
  std::string operator()(nostd::span<const uint64_t> v) const { return sp("vu64:[", v); }
  std::string operator()(nostd::span<const uint8_t> v) const
  {
    std::string o = "vu8:[";
    for (auto e : v)
      o += num((unsigned)e) + ",";
    return o + "]";
  }
  std::string operator()(nostd::span<const double> v) const
  {
    std::string o = "vd:[";
    for (auto e : v)
      o += dbl(e) + ",";
    return o + "]";
  }
  std::string operator()(nostd::span<const nostd::string_view> v) const
  {
    std::string o = "vs:[";
    for (auto &e : v)
      o += hexs(std::string(e.data(), e.size())) + ",";
    return o + "]";
  }
};
inline std::string canon_view(const AttributeValue &v)
{
  return nostd::visit(CanonView(), v);
}

// A KeyValueIterable over (key, alt, seed) triples living in scratch storage.
struct KV
{
  std::string key;
  int alt;
  uint64_t seed;
};
class ScratchIterable final : public opentelemetry::common::KeyValueIterable
{
public:
  ScratchIterable(const std::vector<KV> &kvs, Scratch &sc)
  {
    for (auto &kv : kvs)
      items_.emplace_back(sc.view(kv.key), build(kv.alt, kv.seed, sc));
  }
  bool ForEachKeyValue(
      nostd::function_ref<bool(nostd::string_view, AttributeValue)> cb) const noexcept override
  {
    for (auto &it : items_)
      if (!cb(it.first, it.second))
        return false;
    return true;
  }
  size_t size() const noexcept override { return items_.size(); }

private:
  std::vector<std::pair<nostd::string_view, AttributeValue>> items_;
};

// expected attribute map (last write wins per key)
inline std::map<std::string, std::string> expect_map(const std::vector<KV> &kvs)
{
  std::map<std::string, std::string> m;
  for (auto &kv : kvs)
    m[kv.key] = expect(kv.alt, kv.seed);
  return m;
}
inline std::vector<KV> gen_kvs(uint64_t seed, const std::string &prefix)
{
  std::vector<KV> v;
  int n = (int)(h64(seed ^ 0xabc) % 4);
  for (int i = 0; i < n; ++i)
  {
    uint64_t r = h64(seed + 31 * (i + 1));
    // duplicate keys on purpose (r % 3 picks from 3 names)
    v.push_back({prefix + "a" + std::to_string(r % 3), (int)((r >> 8) % kAlts), r >> 16});
  }
  return v;
}

}  // namespace val
