// harness.h - helpers shared by the engines (compiled WITH the prefix: a
// std::thread written here is a simulated task).
#pragma once
#include <cstdarg>
#include "engine.h"

namespace hz
{
using vsim::Case;
using vsim::Fault;
using vsim::Op;
using vsim::Rng;
using vsim::TaskProg;

struct Ev
{
  uint64_t seq;
  int task;
  int type;
  int64_t a, b, c, d;
};

// History of the current run. Only the baton holder ever touches it.
inline std::vector<Ev> &hist()
{
  static std::vector<Ev> h;
  return h;
}
inline void ev(int type, int64_t a = 0, int64_t b = 0, int64_t c = 0, int64_t d = 0)
{
  hist().push_back({vsim::seq(), vsim::self(), type, a, b, c, d});
}

inline std::string fmt(const char *f, ...)
{
  char buf[1024];
  va_list ap;
  va_start(ap, f);
  vsnprintf(buf, sizeof buf, f, ap);
  va_end(ap);
  return buf;
}

// Runs one simulated task per program and joins them all.
template <class F>
inline void run_tasks(const Case &c, F fn)
{
  std::vector<std::thread> ts;
  ts.reserve(c.tasks.size());
  for (size_t i = 0; i < c.tasks.size(); ++i)
    ts.emplace_back([&c, i, &fn]() {
      vsim::mark_harness_task(true);
      fn((int)i, c.tasks[i]);
    });
  for (auto &t : ts)
    t.join();
}

// RAII marker: the calling task is inside an API operation.
// While it lives the task executes code of the repository, so call-boundary preemption
// (vsim_core.cc) is on; harness bookkeeping belongs outside, harness callbacks invoked from
// inside the operation declare themselves with HarnessCode.
struct InOp
{
  InOp()
  {
    vsim::in_operation(true);
    vsim::call_points_add(+1);
  }
  ~InOp()
  {
    vsim::call_points_add(-1);
    vsim::in_operation(false);
  }
};
// RAII marker at the top of every harness callback the SDK calls (stub exporters, recordables,
// samplers, id generators, observable callbacks, log handler, queue element hooks): harness
// state is only consistent between schedule points, so no call-boundary preemption in here.
struct HarnessCode
{
  int old;
  HarnessCode() : old(vsim::call_points_set(-1000000)) {}
  ~HarnessCode() { vsim::call_points_set(old); }
};

}  // namespace hz
