// ctx engine - C10: Context values are immutable; the runtime context is a
// per-thread stack. 2-3 simulated tasks share a growing family of contexts and
// run Attach/Detach/Scope programs; a per-task stack model and a persistent
// map model are compared with the real API after every operation.
#include "harness.h"

#include "opentelemetry/context/context.h"
#include "opentelemetry/context/runtime_context.h"
#include "opentelemetry/trace/context.h"
#include "opentelemetry/trace/default_span.h"
#include "opentelemetry/trace/scope.h"
#include "opentelemetry/trace/span_context.h"
#include "opentelemetry/trace/tracer.h"

using namespace hz;
namespace nostd   = opentelemetry::nostd;
namespace context = opentelemetry::context;
namespace trace   = opentelemetry::trace;

namespace
{
enum OpKind
{
  OP_SETVALUE = 1,  // a=src slot b=key c=dst slot
  OP_SETVALUES,     // a=src slot b=key mask c=dst slot
  OP_GETVALUE,      // a=slot b=key
  OP_ATTACH,        // a=slot b=token index
  OP_DETACH,        // a=token index
  OP_DETACH_FOREIGN,  // a=task b=token index
  OP_SCOPE_BEGIN,   // a=span index b=scope index
  OP_SCOPE_END,     // a=scope index
  OP_REQUERY,       // a=slot
  OP_RT_SETVALUE,   // a=key c=dst slot
  OP_ATTACH_DERIVED  // a=key b=token index: Attach(GetCurrent().SetValue(key, v))
};
const int kSlots = 80, kTokens = 80, kScopes = 12, kSpans = 4, kBase = 3;
const int kKeys        = 6;
// includes the empty key, a key that is a prefix of others and one that extends another
const char *kKeyName[] = {"k0", "k1", "key-two", "", "k", "k00"};

struct MCtx  // model of one context value: bindings by key, plus the active span
{
  std::map<int, int64_t> kv;
  int span = -1;
  bool operator==(const MCtx &o) const { return kv == o.kv && span == o.span; }
};

struct Slot
{
  std::unique_ptr<context::Context> real;
  MCtx model;
  int cid = -1;
};

struct TokenRec
{
  nostd::unique_ptr<context::Token> tok;
  int cid = -1;
};

struct World
{
  std::vector<Slot> slots;
  std::vector<std::vector<TokenRec>> tokens;  // [task][index]
  std::vector<nostd::shared_ptr<trace::Span>> spans;
  int next_cid = 1000000;
};
World *W = nullptr;

struct TaskState
{
  struct Entry
  {
    int cid;
    MCtx model;
    context::Context real;
  };
  std::vector<Entry> stack;  // model of this thread's runtime-context stack
  std::vector<std::unique_ptr<trace::Scope>> scopes;
  std::vector<int> scope_cid;
  int idx = 0;
};

// Values of several ContextValue alternatives, including the falsy ones (false, 0, 0.0).
// make_value(v) is what is stored for the unique id v, canon_of(v) what the model expects
// value_of() to read back.
const int64_t kDbl = 2000000000000ll, kU64 = 4000000000000ll;
// A key may also be bound to the unset alternative (monostate): the binding shadows older
// ones, so GetValue answers monostate and HasKey false from then on.
const int64_t kUnset = INT64_MIN + 1;
bool binds_unset(int64_t v)
{
  return (v & 31) == 9;
}
context::ContextValue make_value(int64_t v)
{
  if (binds_unset(v))
    return context::ContextValue{};
  switch (v & 3)
  {
    case 0:
      return context::ContextValue((int64_t)((v & 15) == 4 ? 0 : v));
    case 1:
      return context::ContextValue((bool)((v >> 2) & 1));
    case 2:
      return context::ContextValue((v & 15) == 6 ? 0.0 : (double)v);
    default:
      return context::ContextValue((uint64_t)v);
  }
}
int64_t canon_of(int64_t v)
{
  if (binds_unset(v))
    return kUnset;
  switch (v & 3)
  {
    case 0:
      return (v & 15) == 4 ? 0 : v;
    case 1:
      return -10 - ((v >> 2) & 1);
    case 2:
      return ((v & 15) == 6 ? 0 : v) + kDbl;
    default:
      return v + kU64;
  }
}
int64_t value_of(const context::ContextValue &v, bool &present)
{
  present = !nostd::holds_alternative<nostd::monostate>(v);
  if (nostd::holds_alternative<int64_t>(v))
    return nostd::get<int64_t>(v);
  if (nostd::holds_alternative<bool>(v))
    return -10 - (nostd::get<bool>(v) ? 1 : 0);
  if (nostd::holds_alternative<double>(v))
    return (int64_t)nostd::get<double>(v) + kDbl;
  if (nostd::holds_alternative<uint64_t>(v))
    return (int64_t)nostd::get<uint64_t>(v) + kU64;
  return INT64_MIN;
}

void compare_ctx(const context::Context &real, const MCtx &m, const char *what, int task)
{
  for (int k = 0; k < kKeys; ++k)
  {
    bool present;
    int64_t v  = value_of(real.GetValue(kKeyName[k]), present);
    auto it    = m.kv.find(k);
    bool has   = real.HasKey(kKeyName[k]);
    bool bound = it != m.kv.end();
    bool exp_present = bound && it->second != kUnset;
    // (HasKey is defined as "GetValue is not monostate": a monostate binding hides the key)
    if (present != exp_present || has != present || (present && v != it->second))
    {
      vsim::report("C10.context_value",
                   fmt("task %d, %s: key '%s' answers %s%lld, model says %s%lld", task, what,
                       kKeyName[k], present ? "" : "absent/", (long long)v,
                       it != m.kv.end() ? "" : "absent/",
                       (long long)(it != m.kv.end() ? it->second : 0)));
      return;
    }
  }
  // active span binding
  auto sp      = trace::GetSpan(real);
  auto sc      = sp->GetContext();
  int got_span = -1;
  if (sc.IsValid())
    for (size_t i = 0; i < W->spans.size(); ++i)
      if (W->spans[i]->GetContext().span_id() == sc.span_id())
        got_span = (int)i;
  if (got_span != m.span)
    vsim::report("C10.active_span", fmt("task %d, %s: active span is #%d, model says #%d", task,
                                        what, got_span, m.span));
}

void check_current(TaskState &ts)
{
  context::Context cur = context::RuntimeContext::GetCurrent();
  if (ts.stack.empty())
  {
    if (!(cur == context::Context()))
      vsim::report("C10.current_not_empty",
                   fmt("task %d: stack model is empty but GetCurrent() is not the empty context",
                       ts.idx));
    MCtx empty;
    compare_ctx(cur, empty, "current (empty stack)", ts.idx);
    return;
  }
  const auto &top = ts.stack.back();
  if (!(cur == top.real))
    vsim::report("C10.current_mismatch",
                 fmt("task %d: GetCurrent() is not the context the model has on top (depth %zu)",
                     ts.idx, ts.stack.size()));
  compare_ctx(cur, top.model, "current", ts.idx);
  // RuntimeContext::GetValue goes through GetCurrent
  bool present;
  int64_t v = value_of(context::RuntimeContext::GetValue(kKeyName[0]), present);
  auto it   = top.model.kv.find(0);
  if (present != (it != top.model.kv.end() && it->second != kUnset) || (present && v != it->second))
    vsim::report("C10.runtime_getvalue", fmt("task %d: RuntimeContext::GetValue mismatch", ts.idx));
  // Tracer::GetCurrentSpan
  auto sp      = trace::Tracer::GetCurrentSpan();
  auto sc      = sp->GetContext();
  int got_span = -1;
  if (sc.IsValid())
    for (size_t i = 0; i < W->spans.size(); ++i)
      if (W->spans[i]->GetContext().span_id() == sc.span_id())
        got_span = (int)i;
  if (got_span != top.model.span)
    vsim::report("C10.current_span", fmt("task %d: GetCurrentSpan() is #%d, model says #%d", ts.idx,
                                         got_span, top.model.span));
}

// model of ThreadLocalContextStorage::Detach for a token whose context is `cid`
bool model_detach(TaskState &ts, int cid)
{
  if (!ts.stack.empty() && ts.stack.back().cid == cid)
  {
    ts.stack.pop_back();
    return true;
  }
  bool contains = false;
  for (auto &e : ts.stack)
    if (e.cid == cid)
      contains = true;
  if (!contains)
    return false;
  while (ts.stack.back().cid != cid)
    ts.stack.pop_back();
  ts.stack.pop_back();
  vsim::probe("ctx.out_of_order_detach");
  return true;
}

void run_program(int idx, const TaskProg &t)
{
  TaskState ts;
  ts.idx        = idx;
  ts.scopes.resize(kScopes);
  ts.scope_cid.resize(kScopes, -1);
  int64_t uid   = (int64_t)(idx + 1) * 100000;
  auto &mytoks  = W->tokens[idx];
  for (const Op &op : t.ops)
  {
    vsim::yield();
    InOp io;
    switch (op.kind)
    {
      case OP_SETVALUE: {
        Slot &src = W->slots[op.a];
        Slot &dst = W->slots[op.c];
        if (!src.real || dst.real)
          break;
        int64_t v = ++uid;
        vsim::yield();
        context::Context nc = src.real->SetValue(kKeyName[op.b], make_value(v));
        vsim::yield();
        dst.model            = src.model;
        dst.model.kv[op.b]   = canon_of(v);
        dst.cid              = (int)op.c;
        dst.real.reset(new context::Context(nc));
        compare_ctx(*dst.real, dst.model, "new context from SetValue", idx);
        compare_ctx(*src.real, src.model, "source context after SetValue", idx);
        break;
      }
      case OP_SETVALUES: {
        Slot &src = W->slots[op.a];
        Slot &dst = W->slots[op.c];
        if (!src.real || dst.real)
          break;
        std::map<std::string, context::ContextValue> m;
        MCtx nm = src.model;
        for (int k = 0; k < kKeys; ++k)
          if ((op.b >> k) & 1)
          {
            int64_t v      = ++uid;
            m[kKeyName[k]] = make_value(v);
            nm.kv[k]       = canon_of(v);
          }
        if (m.empty())
          break;
        vsim::yield();
        context::Context nc = src.real->SetValues(m);
        vsim::yield();
        dst.model = nm;
        dst.cid   = (int)op.c;
        dst.real.reset(new context::Context(nc));
        compare_ctx(*dst.real, dst.model, "new context from SetValues", idx);
        compare_ctx(*src.real, src.model, "source context after SetValues", idx);
        break;
      }
      case OP_GETVALUE:
      case OP_REQUERY: {
        Slot &s = W->slots[op.a];
        if (!s.real)
          break;
        compare_ctx(*s.real, s.model, "re-query of an earlier context", idx);
        vsim::probe("ctx.requery");
        break;
      }
      case OP_RT_SETVALUE: {
        Slot &dst = W->slots[op.c];
        if (dst.real)
          break;
        int64_t v           = ++uid;
        context::Context nc = context::RuntimeContext::SetValue(kKeyName[op.a], make_value(v));
        dst.model           = ts.stack.empty() ? MCtx() : ts.stack.back().model;
        dst.model.kv[op.a]  = canon_of(v);
        dst.cid             = (int)op.c;
        dst.real.reset(new context::Context(nc));
        compare_ctx(*dst.real, dst.model, "RuntimeContext::SetValue result", idx);
        break;
      }
      case OP_ATTACH: {
        Slot &s = W->slots[op.a];
        if (!s.real || mytoks[op.b].tok)
          break;
        mytoks[op.b].tok = context::RuntimeContext::Attach(*s.real);
        mytoks[op.b].cid = s.cid;
        ts.stack.push_back({s.cid, s.model, *s.real});
        if (ts.stack.size() > 30)
          vsim::probe("ctx.depth_over_30");
        break;
      }
      case OP_ATTACH_DERIVED: {
        if (mytoks[op.b].tok)
          break;
        int64_t v           = ++uid;
        context::Context nc =
            context::RuntimeContext::GetCurrent().SetValue(kKeyName[op.a], make_value(v));
        MCtx nm             = ts.stack.empty() ? MCtx() : ts.stack.back().model;
        nm.kv[op.a]         = canon_of(v);
        int cid             = W->next_cid++;
        mytoks[op.b].tok    = context::RuntimeContext::Attach(nc);
        mytoks[op.b].cid    = cid;
        ts.stack.push_back({cid, nm, nc});
        break;
      }
      case OP_DETACH: {
        TokenRec &tr = mytoks[op.a];
        if (!tr.tok)
          break;
        bool exp = model_detach(ts, tr.cid);
        bool got = context::RuntimeContext::Detach(*tr.tok);
        if (exp != got)
          vsim::report("C10.detach_result", fmt("task %d: Detach returned %d, model says %d", idx,
                                                (int)got, (int)exp));
        break;
      }
      case OP_DETACH_FOREIGN: {
        if (op.a == idx || op.a >= (int64_t)W->tokens.size())
          break;
        TokenRec &tr = W->tokens[op.a][op.b];
        if (!tr.tok)
          break;
        bool mine = false;
        for (auto &e : ts.stack)
          if (e.cid == tr.cid)
            mine = true;
        if (mine)
          break;  // the same context is attached here too: not a foreign token in the property's sense
        vsim::probe("ctx.foreign_detach");
        bool got = context::RuntimeContext::Detach(*tr.tok);
        if (got)
          vsim::report("C10.foreign_detach", fmt("task %d: detaching task %lld's token reported "
                                                 "success",
                                                 idx, (long long)op.a));
        break;
      }
      case OP_SCOPE_BEGIN: {
        if (ts.scopes[op.b])
          break;
        MCtx nm = ts.stack.empty() ? MCtx() : ts.stack.back().model;
        nm.span = (int)op.a;
        int cid = W->next_cid++;
        ts.scopes[op.b].reset(new trace::Scope(W->spans[op.a]));
        ts.scope_cid[op.b] = cid;
        ts.stack.push_back({cid, nm, context::RuntimeContext::GetCurrent()});
        break;
      }
      case OP_SCOPE_END: {
        if (!ts.scopes[op.a])
          break;
        model_detach(ts, ts.scope_cid[op.a]);
        ts.scopes[op.a].reset();
        break;
      }
      default:
        break;
    }
    check_current(ts);
  }
  // release: scopes and tokens are destroyed in reverse creation order on their own thread
  for (size_t i = ts.scopes.size(); i-- > 0;)
    if (ts.scopes[i])
    {
      model_detach(ts, ts.scope_cid[i]);
      ts.scopes[i].reset();
      check_current(ts);
    }
  for (size_t i = mytoks.size(); i-- > 0;)
    if (mytoks[i].tok)
    {
      model_detach(ts, mytoks[i].cid);
      mytoks[i].tok.reset();
      check_current(ts);
    }
  if (!ts.stack.empty())
    vsim::report("C10.harness", "model stack not empty at the end of a task");
}

void generate(const std::string &, Rng &wl, Rng &fl, Case &c)
{
  vsim::SimKnobs sk;
  sk.faults_on   = false;
  sk.typical_len = 150;
  int ntasks     = (int)wl.range(2, 3);
  bool deep      = wl.chance(0.2);
  c.stratum      = deep ? "deep_stack" : "mixed";
  // allocator seam: in half of the runs a freed address is handed out again at once (a token
  // or frame that is compared by address must not match an unrelated, newer context)
  bool reuse = fl.chance(0.5);
  c.set("alloc_lifo", reuse);
  if (reuse)
    c.stratum += ".addr_reuse";
  int next_slot  = kBase;
  for (int t = 0; t < ntasks; ++t)
  {
    TaskProg p;
    int n = (int)wl.range(5, vsim::tier_scale() > 1 && wl.chance(0.5) ? 70 : 40);
    std::vector<int> my_slots;  // slots this task has (tried to) create
    int ntok = 0, nscope = 0;
    std::vector<int> live_tok, live_scope;
    if (deep && t == 0)
    {
      int depth = (int)wl.range(31, 36);
      for (int i = 0; i < depth && ntok < kTokens; ++i)
      {
        p.ops.push_back({OP_ATTACH, (int64_t)wl.below(kBase), ntok, 0, 0});
        live_tok.push_back(ntok++);
      }
      n = (int)wl.range(5, 20);
    }
    for (int i = 0; i < n; ++i)
    {
      double r = wl.real();
      auto any_slot = [&]() -> int64_t {
        // base slots, own slots, or any slot (possibly another task's, possibly not yet filled)
        double q = wl.real();
        if (q < 0.4 || my_slots.empty())
          return (int64_t)wl.below(kBase);
        if (q < 0.8)
          return my_slots[wl.below(my_slots.size())];
        return (int64_t)wl.below(std::max(next_slot, kBase));
      };
      if (r < 0.18 && next_slot < kSlots)
      {
        p.ops.push_back({OP_SETVALUE, any_slot(), (int64_t)wl.below(kKeys), next_slot, 0});
        my_slots.push_back(next_slot++);
      }
      else if (r < 0.26 && next_slot < kSlots)
      {
        p.ops.push_back({OP_SETVALUES, any_slot(), (int64_t)wl.range(1, 63), next_slot, 0});
        my_slots.push_back(next_slot++);
      }
      else if (r < 0.30 && next_slot < kSlots)
      {
        p.ops.push_back({OP_RT_SETVALUE, (int64_t)wl.below(kKeys), 0, next_slot, 0});
        my_slots.push_back(next_slot++);
      }
      else if (r < 0.45)
        p.ops.push_back({OP_REQUERY, any_slot(), 0, 0, 0});
      else if (r < 0.62 && ntok < kTokens)
      {
        p.ops.push_back({OP_ATTACH, any_slot(), ntok, 0, 0});
        live_tok.push_back(ntok++);
      }
      else if (r < 0.67 && ntok < kTokens)
      {
        p.ops.push_back({OP_ATTACH_DERIVED, (int64_t)wl.below(kKeys), ntok, 0, 0});
        live_tok.push_back(ntok++);
      }
      else if (r < 0.82 && !live_tok.empty())
      {
        // mostly the most recent token, sometimes any (out of order), sometimes a spent one
        size_t pos = wl.chance(0.6) ? live_tok.size() - 1 : wl.below(live_tok.size());
        p.ops.push_back({OP_DETACH, live_tok[pos], 0, 0, 0});
        if (wl.chance(0.85))
          live_tok.erase(live_tok.begin() + pos);
      }
      else if (r < 0.87)
        p.ops.push_back({OP_DETACH_FOREIGN, (int64_t)wl.below(ntasks), (int64_t)wl.below(8), 0, 0});
      else if (r < 0.94 && nscope < kScopes)
      {
        p.ops.push_back({OP_SCOPE_BEGIN, (int64_t)wl.below(kSpans), nscope, 0, 0});
        live_scope.push_back(nscope++);
      }
      else if (!live_scope.empty())
      {
        size_t pos = wl.chance(0.6) ? live_scope.size() - 1 : wl.below(live_scope.size());
        p.ops.push_back({OP_SCOPE_END, live_scope[pos], 0, 0, 0});
        live_scope.erase(live_scope.begin() + pos);
      }
    }
    c.tasks.push_back(p);
  }
  vsim::draw_run_config(fl, sk, c.rc);
  c.rc.budget1 = 20000;
}

void body(const Case &c)
{
  hist().clear();
  World w;
  W = &w;
  w.slots.resize(kSlots);
  w.tokens.resize(c.tasks.size());
  for (auto &t : w.tokens)
    t.resize(kTokens);
  for (int i = 0; i < kSpans; ++i)
  {
    uint8_t tid[16] = {1, 2, 3, 4, 5, 6, 7, 8, 9, 10, 11, 12, 13, 14, 15, (uint8_t)(i + 1)};
    uint8_t sid[8]  = {9, 9, 9, 9, 9, 9, 9, (uint8_t)(i + 1)};
    trace::SpanContext sc(trace::TraceId(tid), trace::SpanId(sid), trace::TraceFlags(1), false);
    w.spans.push_back(nostd::shared_ptr<trace::Span>(new trace::DefaultSpan(sc)));
  }
  // base family
  for (int i = 0; i < kBase; ++i)
  {
    w.slots[i].real.reset(new context::Context(kKeyName[i % kKeys], (int64_t)(i + 1)));
    w.slots[i].model.kv[i % kKeys] = i + 1;
    w.slots[i].cid                 = i;
  }
  run_tasks(c, [&](int i, const TaskProg &t) {
    TaskState dummy;
    (void)dummy;
    // per-task scope table
    run_program(i, t);
  });
  // every context ever created still answers as when it was created
  for (int i = 0; i < kSlots; ++i)
    if (w.slots[i].real)
      compare_ctx(*w.slots[i].real, w.slots[i].model, "final re-query", 0);
  // the root task never attached anything
  if (!(context::RuntimeContext::GetCurrent() == context::Context()))
    vsim::report("C10.leak_across_threads", "the root task sees an attached context");
  w.slots.clear();
  W = nullptr;
}

void check(const Case &, const vsim::RunResult &) {}

std::string describe_op(const Case &, int, const Op &op)
{
  switch (op.kind)
  {
    case OP_SETVALUE:
      return fmt("ctx[%lld] = ctx[%lld].SetValue('%s', fresh)", (long long)op.c, (long long)op.a,
                 kKeyName[op.b % kKeys]);
    case OP_SETVALUES:
      return fmt("ctx[%lld] = ctx[%lld].SetValues(keymask %lld)", (long long)op.c, (long long)op.a,
                 (long long)op.b);
    case OP_GETVALUE:
    case OP_REQUERY:
      return fmt("re-query ctx[%lld]", (long long)op.a);
    case OP_RT_SETVALUE:
      return fmt("ctx[%lld] = RuntimeContext::SetValue('%s', fresh)", (long long)op.c,
                 kKeyName[op.a % kKeys]);
    case OP_ATTACH:
      return fmt("tok[%lld] = Attach(ctx[%lld])", (long long)op.b, (long long)op.a);
    case OP_ATTACH_DERIVED:
      return fmt("tok[%lld] = Attach(GetCurrent().SetValue('%s', fresh))", (long long)op.b,
                 kKeyName[op.a % kKeys]);
    case OP_DETACH:
      return fmt("Detach(tok[%lld])", (long long)op.a);
    case OP_DETACH_FOREIGN:
      return fmt("Detach(task %lld's tok[%lld])", (long long)op.a, (long long)op.b);
    case OP_SCOPE_BEGIN:
      return fmt("scope[%lld] = Scope(span #%lld)", (long long)op.b, (long long)op.a);
    case OP_SCOPE_END:
      return fmt("destroy scope[%lld]", (long long)op.a);
  }
  return "?";
}
std::string describe_fault(const Case &, const Fault &)
{
  return "";
}

const char *const kProps[] = {"C10", nullptr};
const std::pair<const char *, int64_t> kShrink[] = {{nullptr, 0}};
const char *const kReal[] = {"api/context/context.h", "api/context/runtime_context.h",
                             "api/context/context_value.h", "api/trace/scope.h",
                             "api/trace/context.h, tracer.h (GetCurrentSpan)", nullptr};
const char *const kStub[] = {"spans are api DefaultSpan objects with fixed ids", nullptr};
}  // namespace

namespace vsim
{
const EngineDesc g_engine = {
    "ctx",
    kProps,
    generate,
    body,
    check,
    describe_op,
    describe_fault,
    kShrink,
    kReal,
    kStub,
    "one run = 2-3 tasks x 5-40 operations (SetValue / SetValues / RuntimeContext::SetValue on a "
    "shared family of up to 40 contexts, re-queries, Attach, Detach of own tokens in arbitrary "
    "order incl. spent tokens, Detach of another task's token, Scope begin/end in arbitrary "
    "order; a deep-stack stratum attaches 31-36 contexts first, crossing five growth steps) "
    "interleaved at operation boundaries and inside SetValue by harness yields; after every "
    "operation GetCurrent / GetValue / HasKey / GetCurrentSpan are compared with the model; "
    "distinct = distinct (workload hash, trace hash); non-trivial = >= 2 tasks and >= 1 context "
    "switch while a task was inside an operation"};
}
