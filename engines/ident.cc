// ident engine - C05: identity, parentage, flags and trace state of new spans.
// 1-3 simulated tasks each run a tree of StartSpan / Scope / End operations
// mixing the three parenting mechanisms; every started span is compared with
// a model of the statement, and every exported SpanData with its span.
#include "harness.h"

#include "opentelemetry/context/context.h"
#include "opentelemetry/sdk/resource/resource.h"
#include "opentelemetry/sdk/trace/exporter.h"
#include "opentelemetry/sdk/trace/id_generator.h"
#include "opentelemetry/sdk/trace/random_id_generator.h"
#include "opentelemetry/sdk/trace/sampler.h"
#include "opentelemetry/sdk/trace/samplers/always_off.h"
#include "opentelemetry/sdk/trace/samplers/always_on.h"
#include "opentelemetry/sdk/trace/samplers/parent.h"
#include "opentelemetry/sdk/trace/samplers/trace_id_ratio.h"
#include "opentelemetry/sdk/trace/simple_processor.h"
#include "opentelemetry/sdk/trace/span_data.h"
#include "opentelemetry/sdk/trace/tracer_provider.h"
#include "opentelemetry/trace/context.h"
#include "opentelemetry/trace/default_span.h"
#include "opentelemetry/trace/scope.h"
#include "opentelemetry/trace/span_startoptions.h"
#include "opentelemetry/trace/trace_state.h"

using namespace hz;
namespace nostd     = opentelemetry::nostd;
namespace trace_api = opentelemetry::trace;
namespace sdktrace  = opentelemetry::sdk::trace;
#include <sys/wait.h>
#include <unistd.h>
namespace sdkcommon = opentelemetry::sdk::common;
namespace context   = opentelemetry::context;
using opentelemetry::sdk::resource::Resource;

namespace
{
enum OpKind
{
  OP_START = 1,    // a=dst span index b=mode c=ref d=other task
  OP_SCOPE_BEGIN,  // a=span index b=scope index
  OP_SCOPE_END,    // a=scope index
  OP_END,          // a=span index
  OP_FORK          // a=number of span pairs the forked child starts
};
enum Mode
{
  M_IMPLICIT = 0,       // default options: the active span
  M_SPANCTX_OWN,        // explicit SpanContext of one of the task's spans
  M_SPANCTX_REMOTE,     // explicit SpanContext from the remote table
  M_CONTEXT_SPAN,       // explicit Context carrying one of the task's spans
  M_CONTEXT_ROOT,       // explicit Context marked as root (no span inside)
  M_CONTEXT_NOSPAN,     // explicit Context without a span and without root marker
  M_SPANCTX_INVALID,    // explicit invalid SpanContext
  M_SPANCTX_OTHER_TASK, // explicit SpanContext of another task's span
  M_CONTEXT_REMOTE,     // explicit Context carrying a DefaultSpan with a remote context
  M_CONTEXT_ROOT_WITH_SPAN,  // root marker AND a valid span: the span wins
  M_CONTEXT_ROOT_FALSE,      // root key present with value false: NOT marked as root
  M_CONTEXT_ROOT_CLEARED,    // marked as root, then the marker overwritten with false
  M_NMODES
};
const int kSpans = 10, kScopes = 48, kRemotes = 6;
const int kBogus = -2;  // model stack entry: an active span whose context is invalid but not all-zero

std::string hex(const uint8_t *p, size_t n)
{
  std::string s;
  for (size_t i = 0; i < n; ++i)
    s += fmt("%02x", p[i]);
  return s;
}
std::string tid(const trace_api::TraceId &t)
{
  return hex(t.Id().data(), 16);
}
std::string sid(const trace_api::SpanId &t)
{
  return hex(t.Id().data(), 8);
}

// Decision of the scripted sampler: a pure function of the span name.
struct Script
{
  sdktrace::Decision decision;
  std::string trace_state;  // empty: none given
  bool attrs;
};
Script script_for(nostd::string_view name)
{
  uint64_t h = 1469598103934665603ull;
  for (char ch : name)
    h = (h ^ (uint8_t)ch) * 1099511628211ull;
  Script s;
  switch (h % 3)
  {
    case 0:
      s.decision = sdktrace::Decision::DROP;
      break;
    case 1:
      s.decision = sdktrace::Decision::RECORD_ONLY;
      break;
    default:
      s.decision = sdktrace::Decision::RECORD_AND_SAMPLE;
  }
  s.trace_state = ((h >> 8) % 2) ? fmt("s=%d", (int)((h >> 16) % 100)) : "";
  s.attrs       = (h >> 24) % 2;
  return s;
}

class ScriptedSampler final : public sdktrace::Sampler
{
public:
  sdktrace::SamplingResult ShouldSample(
      const trace_api::SpanContext &,
      trace_api::TraceId,
      nostd::string_view name,
      trace_api::SpanKind,
      const opentelemetry::common::KeyValueIterable &,
      const trace_api::SpanContextKeyValueIterable &) noexcept override
  {
    hz::HarnessCode hc_;
    Script s = script_for(name);
    std::unique_ptr<const std::map<std::string, opentelemetry::common::AttributeValue>> attrs;
    if (s.attrs)
      attrs.reset(new std::map<std::string, opentelemetry::common::AttributeValue>{
          {"sampler.attr", (int64_t)7}});
    nostd::shared_ptr<trace_api::TraceState> ts;
    if (!s.trace_state.empty())
      ts = trace_api::TraceState::FromHeader(s.trace_state);
    return {s.decision, std::move(attrs), ts};
  }
  nostd::string_view GetDescription() const noexcept override { return "Scripted"; }
};

struct World;
World *W = nullptr;

class SeqIdGenerator final : public sdktrace::IdGenerator
{
public:
  SeqIdGenerator() : sdktrace::IdGenerator(false) {}
  trace_api::SpanId GenerateSpanId() noexcept override
  {
    hz::HarnessCode hc_;
    uint64_t v    = ++span_;
    uint8_t b[8];
    for (int i = 0; i < 8; ++i)
      b[i] = (uint8_t)(v >> (8 * (7 - i)));
    b[0] = 0x5e;
    return trace_api::SpanId(b);
  }
  trace_api::TraceId GenerateTraceId() noexcept override
  {
    hz::HarnessCode hc_;
    uint64_t v     = ++trace_;
    uint8_t b[16]  = {0x7e};
    for (int i = 0; i < 8; ++i)
      b[8 + i] = (uint8_t)(v >> (8 * (7 - i)));
    return trace_api::TraceId(b);
  }

private:
  uint64_t span_ = 0, trace_ = 0;
};

struct Exported
{
  std::string trace_id, span_id, parent_id, trace_state;
  uint8_t flags;
  int count = 0;
  bool has_sampler_attr = false;
};

struct SpanRec
{
  nostd::shared_ptr<trace_api::Span> span;
  bool started = false, ended = false, recording = false;
  std::string trace_id, span_id, expect_parent;
  uint8_t flags = 0;
  bool expect_sampler_attr = false;
};

struct World
{
  const Case *c = nullptr;
  std::vector<std::vector<SpanRec>> spans;  // [task][index]
  std::set<std::string> span_ids, trace_ids;
  std::map<std::string, Exported> exported;  // by span id
  std::vector<trace_api::SpanContext> remotes;
  std::shared_ptr<sdktrace::Sampler> oracle;
  nostd::shared_ptr<trace_api::Tracer> tracer;
};

class CaptureExporter final : public sdktrace::SpanExporter
{
public:
  std::unique_ptr<sdktrace::Recordable> MakeRecordable() noexcept override
  {
    hz::HarnessCode hc_;
    return std::unique_ptr<sdktrace::Recordable>(new sdktrace::SpanData);
  }
  sdkcommon::ExportResult Export(
      const nostd::span<std::unique_ptr<sdktrace::Recordable>> &spans) noexcept override
  {
    hz::HarnessCode hc_;
    for (auto &r : spans)
    {
      auto *sd    = static_cast<sdktrace::SpanData *>(r.get());
      Exported &e = W->exported[sid(sd->GetSpanId())];
      e.count++;
      e.trace_id    = tid(sd->GetTraceId());
      e.span_id     = sid(sd->GetSpanId());
      e.parent_id   = sid(sd->GetParentSpanId());
      e.flags       = sd->GetFlags().flags();
      e.trace_state = sd->GetSpanContext().trace_state()->ToHeader();
      e.has_sampler_attr = sd->GetAttributes().count("sampler.attr") != 0;
    }
    vsim::yield();
    return sdkcommon::ExportResult::kSuccess;
  }
  bool ForceFlush(std::chrono::microseconds) noexcept override { hz::HarnessCode hc_; return true; }
  bool Shutdown(std::chrono::microseconds) noexcept override { hz::HarnessCode hc_; return true; }
};

std::shared_ptr<sdktrace::Sampler> make_sampler(int kind)
{
  switch (kind)
  {
    case 0:
      return std::make_shared<sdktrace::AlwaysOnSampler>();
    case 1:
      return std::make_shared<sdktrace::AlwaysOffSampler>();
    case 2:
      return std::make_shared<sdktrace::TraceIdRatioBasedSampler>(0.5);
    case 3:
      return std::make_shared<sdktrace::ParentBasedSampler>(
          std::make_shared<sdktrace::AlwaysOnSampler>());
    case 4:
      return std::make_shared<sdktrace::ParentBasedSampler>(
          std::make_shared<sdktrace::AlwaysOffSampler>());
    case 5:
      return std::make_shared<sdktrace::ParentBasedSampler>(
          std::make_shared<sdktrace::TraceIdRatioBasedSampler>(0.5));
    default:
      return std::make_shared<ScriptedSampler>();
  }
}
std::unique_ptr<sdktrace::Sampler> make_sampler_unique(int kind)
{
  switch (kind)
  {
    case 0:
      return std::unique_ptr<sdktrace::Sampler>(new sdktrace::AlwaysOnSampler);
    case 1:
      return std::unique_ptr<sdktrace::Sampler>(new sdktrace::AlwaysOffSampler);
    case 2:
      return std::unique_ptr<sdktrace::Sampler>(new sdktrace::TraceIdRatioBasedSampler(0.5));
    case 3:
      return std::unique_ptr<sdktrace::Sampler>(
          new sdktrace::ParentBasedSampler(std::make_shared<sdktrace::AlwaysOnSampler>()));
    case 4:
      return std::unique_ptr<sdktrace::Sampler>(
          new sdktrace::ParentBasedSampler(std::make_shared<sdktrace::AlwaysOffSampler>()));
    case 5:
      return std::unique_ptr<sdktrace::Sampler>(new sdktrace::ParentBasedSampler(
          std::make_shared<sdktrace::TraceIdRatioBasedSampler>(0.5)));
    default:
      return std::unique_ptr<sdktrace::Sampler>(new ScriptedSampler);
  }
}

struct TaskState
{
  int idx = 0;
  std::vector<std::unique_ptr<trace_api::Scope>> scopes;
  std::vector<int> scope_span;   // span index per scope
  std::vector<int> active;       // model: stack of this task's span indices made active
};

void do_start(TaskState &ts, const Op &op)
{
  auto &mine   = W->spans[ts.idx];
  SpanRec &rec = mine[op.a];
  if (rec.started)
    return;
  // ---- model: resolve the parent exactly as the statement says
  trace_api::SpanContext active = trace_api::SpanContext::GetInvalid();
  if (!ts.active.empty() && ts.active.back() != kBogus)
    active = mine[ts.active.back()].span->GetContext();
  // (an active span with an invalid context - zero trace id, non-zero span id - is no parent)
  trace_api::SpanContext parent = active;
  trace_api::StartSpanOptions opts;
  int mode = (int)op.b;
  auto own = [&](int64_t ref) -> SpanRec * {
    SpanRec &r = mine[ref % kSpans];
    return r.started ? &r : nullptr;
  };
  switch (mode)
  {
    case M_IMPLICIT:
      break;
    case M_SPANCTX_OWN:
      if (SpanRec *r = own(op.c))
      {
        opts.parent = r->span->GetContext();
        parent      = r->span->GetContext();
      }
      break;
    case M_SPANCTX_REMOTE: {
      const auto &rc = W->remotes[op.c % kRemotes];
      opts.parent    = rc;
      parent         = rc;
      break;
    }
    case M_CONTEXT_SPAN:
      if (SpanRec *r = own(op.c))
      {
        context::Context cx;
        opts.parent = trace_api::SetSpan(cx, r->span);
        parent      = r->span->GetContext();
      }
      break;
    case M_CONTEXT_ROOT: {
      context::Context cx;
      opts.parent = cx.SetValue(trace_api::kIsRootSpanKey, true);
      parent      = trace_api::SpanContext::GetInvalid();
      break;
    }
    case M_CONTEXT_NOSPAN: {
      context::Context cx("unrelated", (int64_t)1);
      opts.parent = cx;
      break;  // falls back to the active span
    }
    case M_SPANCTX_INVALID:
      opts.parent = trace_api::SpanContext::GetInvalid();
      break;
    case M_SPANCTX_OTHER_TASK: {
      int other = (int)(op.d % (int64_t)W->spans.size());
      if (other != ts.idx)
      {
        SpanRec &r = W->spans[other][op.c % kSpans];
        if (r.started)
        {
          opts.parent = r.span->GetContext();
          parent      = r.span->GetContext();
          vsim::probe("ident.cross_task_parent");
        }
      }
      break;
    }
    case M_CONTEXT_REMOTE: {
      const auto &rc = W->remotes[op.c % kRemotes];
      context::Context cx;
      nostd::shared_ptr<trace_api::Span> ds(new trace_api::DefaultSpan(rc));
      opts.parent = trace_api::SetSpan(cx, ds);
      parent      = rc;
      break;
    }
    case M_CONTEXT_ROOT_WITH_SPAN:
      if (SpanRec *r = own(op.c))
      {
        context::Context cx;
        cx          = cx.SetValue(trace_api::kIsRootSpanKey, true);
        opts.parent = trace_api::SetSpan(cx, r->span);
        parent      = r->span->GetContext();
      }
      break;
    case M_CONTEXT_ROOT_FALSE: {
      context::Context cx;
      opts.parent = cx.SetValue(trace_api::kIsRootSpanKey, false);
      break;  // not marked as root and no span inside: falls back to the active span
    }
    case M_CONTEXT_ROOT_CLEARED: {
      context::Context cx;
      cx          = cx.SetValue(trace_api::kIsRootSpanKey, true);
      opts.parent = cx.SetValue(trace_api::kIsRootSpanKey, false);
      break;  // the newest value of the key decides: falls back to the active span
    }
    default:
      break;
  }
  std::string name = fmt("t%ds%lld", ts.idx, (long long)op.a);
  vsim::yield();
  nostd::shared_ptr<trace_api::Span> span;
  {
    // the API operation proper: harness bookkeeping (shared id sets, other tasks' records) stays
    // outside, where no call-boundary preemption happens
    InOp io;
    // every StartSpan overload that takes options (the sampler and the identity model do not
    // depend on the attributes or links passed here)
    switch ((int)((uint64_t)(op.a * 7 + op.b * 3 + op.c + ts.idx) % 5))
    {
      case 1: {
        std::map<std::string, int> attrs{{"a", 1}};
        span = W->tracer->StartSpan(name, attrs, opts);
        break;
      }
      case 2:
        span = W->tracer->StartSpan(name, {{"a", 1}}, opts);
        break;
      case 3: {
        std::map<std::string, int> attrs{{"a", 1}};
        std::vector<std::pair<trace_api::SpanContext, std::map<std::string, int>>> links;
        span = W->tracer->StartSpan(name, attrs, links, opts);
        break;
      }
      case 4: {
        std::map<std::string, int> attrs;
        opentelemetry::common::KeyValueIterableView<std::map<std::string, int>> view(attrs);
        span = W->tracer->StartSpan(name, view, opts);
        break;
      }
      default:
        span = W->tracer->StartSpan(name, opts);
    }
  }
  vsim::yield();
  rec.span    = span;
  rec.started = true;
  auto ctx    = span->GetContext();
  rec.trace_id = tid(ctx.trace_id());
  rec.span_id  = sid(ctx.span_id());
  rec.flags    = ctx.trace_flags().flags();
  const char *where = name.c_str();
  if (!ctx.IsValid())
    vsim::report("C05.invalid_context", fmt("%s: started span has an invalid context", where));
  if (ctx.IsRemote())
    vsim::report("C05.remote_flag", fmt("%s: a locally started span claims to be remote", where));
  if (parent.IsValid())
  {
    vsim::probe("ident.with_parent");
    if (!(ctx.trace_id() == parent.trace_id()))
      vsim::report("C05.trace_id_not_inherited",
                   fmt("%s (mode %d): trace id %s, parent's is %s", where, mode,
                       rec.trace_id.c_str(), tid(parent.trace_id()).c_str()));
    rec.expect_parent = sid(parent.span_id());
  }
  else
  {
    vsim::probe("ident.root");
    if (W->trace_ids.count(rec.trace_id))
      vsim::report("C05.trace_id_not_fresh",
                   fmt("%s (mode %d): root span reuses trace id %s", where, mode,
                       rec.trace_id.c_str()));
    rec.expect_parent = "0000000000000000";
  }
  // a custom id generator must be the source of every fresh id
  if (W->c->knob("idgen", 0))
  {
    if (rec.span_id.compare(0, 2, "5e") != 0)
      vsim::report("C05.id_generator_bypassed",
                   fmt("%s: span id %s does not come from the configured id generator", where,
                       rec.span_id.c_str()));
    if (!parent.IsValid() && rec.trace_id.compare(0, 2, "7e") != 0)
      vsim::report("C05.id_generator_bypassed",
                   fmt("%s: trace id %s does not come from the configured id generator", where,
                       rec.trace_id.c_str()));
  }
  W->trace_ids.insert(rec.trace_id);
  if (!W->span_ids.insert(rec.span_id).second)
    vsim::report("C05.span_id_not_unique", fmt("%s: span id %s already used", where,
                                               rec.span_id.c_str()));
  for (auto &r : W->remotes)
    if (sid(r.span_id()) == rec.span_id)
      vsim::report("C05.span_id_not_unique", fmt("%s: span id equals a parent's", where));
  // ---- the sampler's decision for exactly these inputs (samplers are pure functions)
  std::map<std::string, int> no_attrs;
  opentelemetry::common::KeyValueIterableView<std::map<std::string, int>> av(no_attrs);
  trace_api::NullSpanContext no_links;
  auto res = W->oracle->ShouldSample(parent, ctx.trace_id(), name, opts.kind, av, no_links);
  bool sampled   = res.decision == sdktrace::Decision::RECORD_AND_SAMPLE;
  bool recording = res.decision != sdktrace::Decision::DROP;
  if (!recording)
    vsim::probe("ident.dropped");
  if (!recording && parent.IsValid() && parent.IsSampled())
    vsim::probe("ident.dropped_child_of_sampled_parent");
  if (ctx.IsSampled() != sampled)
    vsim::report("C05.sampled_flag",
                 fmt("%s (mode %d): sampled flag is %d but the sampler's decision is %s; parent "
                     "flags %02x",
                     where, mode, (int)ctx.IsSampled(),
                     sampled ? "RECORD_AND_SAMPLE" : (recording ? "RECORD_ONLY" : "DROP"),
                     parent.IsValid() ? parent.trace_flags().flags() : 0));
  if (rec.flags & ~trace_api::TraceFlags::kAllW3CTraceContext1Flags)
    vsim::report("C05.extra_flag_bits", fmt("%s: flags byte %02x has bits outside W3C level 1",
                                            where, rec.flags));
  std::string exp_ts = res.trace_state ? res.trace_state->ToHeader()
                       : parent.IsValid() ? parent.trace_state()->ToHeader()
                                          : std::string();
  std::string got_ts = ctx.trace_state() ? ctx.trace_state()->ToHeader() : std::string("<null>");
  if (exp_ts != got_ts)
    vsim::report("C05.trace_state", fmt("%s (mode %d): trace state '%s', expected '%s'", where, mode,
                                        got_ts.c_str(), exp_ts.c_str()));
  if (span->IsRecording() != recording)
    vsim::report("C05.recording", fmt("%s: IsRecording()=%d, decision says %d", where,
                                      (int)span->IsRecording(), (int)recording));
  rec.recording           = recording;
  rec.expect_sampler_attr = recording && res.attributes && res.attributes->count("sampler.attr");
}

// fork(): the calling task forks the process for real (the only multi-process event the SDK
// reacts to: the thread-local id generator re-seeds itself in the child through an at-fork
// handler). The child - alone, no schedule points - starts root spans and children of a remote
// parent and sends their ids back; ids handed out on either side of a fork must still be
// fresh and unique, so the child's ids join the run's id sets and whatever the parent
// generates afterwards is checked against them.
void do_fork(TaskState &ts, const Op &op)
{
  (void)ts;
  if (W->c->knob("idgen", 0))
    return;  // the sequential stub generator is not fork-aware (nor meant to be)
  int n = 1 + (int)(op.a % 3);
  int pfd[2];
  if (pipe(pfd) != 0)
    return;
  int pid = vsim::fork_task();
  if (pid == 0)
  {
    close(pfd[0]);
    std::string out;
    for (int k = 0; k < n; ++k)
    {
      trace_api::StartSpanOptions ro;
      context::Context cx;
      ro.parent = cx.SetValue(trace_api::kIsRootSpanKey, true);
      auto *s1 = new nostd::shared_ptr<trace_api::Span>(W->tracer->StartSpan("forked-root", ro));
      auto c1  = (*s1)->GetContext();
      out += "R " + tid(c1.trace_id()) + " " + sid(c1.span_id()) + "\n";
      trace_api::StartSpanOptions co;
      co.parent = W->remotes[1];
      auto *s2 = new nostd::shared_ptr<trace_api::Span>(W->tracer->StartSpan("forked-child", co));
      auto c2  = (*s2)->GetContext();
      out += "C " + tid(c2.trace_id()) + " " + sid(c2.span_id()) + "\n";
    }
    ssize_t wr = write(pfd[1], out.data(), out.size());
    _exit(wr == (ssize_t)out.size() ? 0 : 98);
  }
  close(pfd[1]);
  std::string in;
  char buf[512];
  ssize_t got;
  while ((got = read(pfd[0], buf, sizeof buf)) > 0)
    in.append(buf, (size_t)got);
  close(pfd[0]);
  int status = 0;
  if (pid > 0)
    waitpid(pid, &status, 0);
  if (pid <= 0 || !WIFEXITED(status) || WEXITSTATUS(status) != 0)
  {
    vsim::probe("ident.fork_child_failed");
    return;
  }
  vsim::probe("fault.fork");
  size_t pos = 0;
  int lines  = 0;
  while (pos < in.size())
  {
    size_t e = in.find('\n', pos);
    if (e == std::string::npos)
      break;
    std::string line = in.substr(pos, e - pos);
    pos              = e + 1;
    if (line.size() != 2 + 32 + 1 + 16)
      continue;
    ++lines;
    bool root      = line[0] == 'R';
    std::string t  = line.substr(2, 32), sp = line.substr(35, 16);
    if (sp == "0000000000000000" || t == "00000000000000000000000000000000")
      vsim::report("C05.invalid_context", "a span started in a forked child has a zero id");
    if (!W->span_ids.insert(sp).second)
      vsim::report("C05.span_id_not_unique",
                   fmt("span id %s handed out in a forked child had already been handed out in "
                       "the parent process",
                       sp.c_str()));
    if (root)
    {
      if (W->trace_ids.count(t))
        vsim::report("C05.trace_id_not_fresh",
                     fmt("root span in a forked child reuses trace id %s", t.c_str()));
      W->trace_ids.insert(t);
    }
    else if (t != tid(W->remotes[1].trace_id()))
      vsim::report("C05.trace_id_not_inherited",
                   fmt("child span started in a forked child has trace id %s", t.c_str()));
  }
  if (lines != 2 * n)
    vsim::probe("ident.fork_child_failed");
}

void run_program(int idx, const TaskProg &t)
{
  TaskState ts;
  ts.idx = idx;
  ts.scopes.resize(kScopes);
  ts.scope_span.assign(kScopes, -1);
  auto &mine = W->spans[idx];
  for (const Op &op : t.ops)
  {
    vsim::yield();
    switch (op.kind)
    {
      case OP_START:
        do_start(ts, op);
        break;
      case OP_SCOPE_BEGIN:
        if (op.b >= 0 && op.b < kScopes && mine[op.a % kSpans].started && !ts.scopes[op.b])
        {
          bool bogus = (op.c & 1) != 0;
          {
            nostd::shared_ptr<trace_api::Span> act = mine[op.a % kSpans].span;
            if (bogus)
            {
              // what a sloppy propagator or instrumentation can leave active: a span object whose
              // context has a span id but no trace id. It is not valid, so it is nobody's parent.
              uint8_t sidb[8] = {0xde, 0xad, 0xbe, 0xef, 0, 0, 0, (uint8_t)(0x40 + ts.idx)};
              act = nostd::shared_ptr<trace_api::Span>(new trace_api::DefaultSpan(
                  trace_api::SpanContext(trace_api::TraceId(), trace_api::SpanId(sidb),
                                         trace_api::TraceFlags(1), false)));
              vsim::probe("ident.half_valid_active_span");
            }
            InOp io;
            ts.scopes[op.b].reset(new trace_api::Scope(act));
          }
          ts.scope_span[op.b] = bogus ? kBogus : (int)(op.a % kSpans);
          ts.active.push_back(bogus ? kBogus : (int)(op.a % kSpans));
          if (ts.active.size() >= 7)
            vsim::probe("ident.stack_depth_ge7");
          if (ts.active.size() >= 15)
            vsim::probe("ident.stack_depth_ge15");
        }
        break;
      case OP_SCOPE_END:
        // LIFO only: the generator closes the most recent open scope
        if (op.a >= 0 && op.a < kScopes && ts.scopes[op.a] && !ts.active.empty() &&
            ts.active.back() == ts.scope_span[op.a])
        {
          {
            InOp io;
            ts.scopes[op.a].reset();
          }
          ts.active.pop_back();
        }
        break;
      case OP_FORK:
        do_fork(ts, op);
        break;
      case OP_END:
        if (mine[op.a].started && !mine[op.a].ended)
        {
          {
            InOp io;
            mine[op.a].span->End();
          }
          mine[op.a].ended = true;
        }
        break;
      default:
        break;
    }
    // isolation: the active span on this thread is the model's
    auto cur = trace_api::Tracer::GetCurrentSpan()->GetContext();
    if (ts.active.empty())
    {
      if (cur.IsValid())
        vsim::report("C05.active_span_leak",
                     fmt("task %d has no active span but GetCurrentSpan() is valid (%s)", idx,
                         sid(cur.span_id()).c_str()));
    }
    else if (ts.active.back() == kBogus)
    {
      if (cur.IsValid() || sid(cur.span_id()).compare(0, 8, "deadbeef") != 0)
        vsim::report("C05.active_span_leak",
                     fmt("task %d: active span is %s, expected the half-valid one", idx,
                         sid(cur.span_id()).c_str()));
    }
    else if (sid(cur.span_id()) != mine[ts.active.back()].span_id)
      vsim::report("C05.active_span_leak",
                   fmt("task %d: active span is %s, expected %s", idx, sid(cur.span_id()).c_str(),
                       mine[ts.active.back()].span_id.c_str()));
  }
  while (!ts.active.empty())
  {
    for (int i = 0; i < kScopes; ++i)
      if (ts.scopes[i] && ts.scope_span[i] == ts.active.back())
      {
        ts.scopes[i].reset();
        break;
      }
    ts.active.pop_back();
  }
  for (auto &s : ts.scopes)
    s.reset();
}

void generate(const std::string &, Rng &wl, Rng &fl, Case &c)
{
  vsim::SimKnobs sk;
  sk.allow_call_points = true;

  sk.faults_on   = false;
  sk.typical_len = 300;
  int ntasks     = (int)wl.range(1, 3);
  c.set("sampler", (int64_t)wl.below(7));
  c.set("idgen", (int64_t)wl.below(2));
  c.stratum = fmt("sampler%lld", (long long)c.knob("sampler"));
  // deep stratum: the active-span stack of a task grows across the runtime context's internal
  // array growth steps (capacity 2, 6, 14, 30, 62) and unwinds again, with implicit-parent
  // StartSpan probes at every level - "the span active on the calling thread" after a history
  // of deep nesting
  bool deep = wl.chance(0.2);
  if (deep)
    c.stratum += ".deep";
  for (int t = 0; t < ntasks; ++t)
  {
    TaskProg p;
    if (deep)
    {
      int nspan = 0, nscope = 0;
      std::vector<int> open_scopes;
      auto start = [&](int mode) {
        if (nspan < kSpans)
        {
          p.ops.push_back({OP_START, nspan, mode, (int64_t)wl.below(std::max(1, nspan)),
                           (int64_t)wl.below(ntasks)});
          ++nspan;
        }
      };
      start(M_IMPLICIT);
      static const int peaks[] = {3, 7, 8, 9, 15, 16, 17, 31, 33};
      int rounds = (int)wl.range(1, 3);
      for (int r = 0; r < rounds && nscope < kScopes; ++r)
      {
        int peak = peaks[wl.below(sizeof(peaks) / sizeof(peaks[0]))];
        while ((int)open_scopes.size() < peak && nscope < kScopes)
        {
          if (wl.chance(0.15))
            start(wl.chance(0.7) ? M_IMPLICIT : (int)wl.below(M_NMODES));
          p.ops.push_back({OP_SCOPE_BEGIN, (int64_t)wl.below(nspan), nscope, 0, 0});
          open_scopes.push_back(nscope++);
        }
        int low = (int)wl.below((uint64_t)std::min<size_t>(open_scopes.size(), 5));
        if (wl.chance(0.3))
          low = (int)wl.below(open_scopes.size() + 1);
        while ((int)open_scopes.size() > low)
        {
          p.ops.push_back({OP_SCOPE_END, open_scopes.back(), 0, 0, 0});
          open_scopes.pop_back();
          if (wl.chance(0.12))
            start(M_IMPLICIT);
        }
        start(M_IMPLICIT);
      }
      c.tasks.push_back(p);
      continue;
    }
    int n      = (int)wl.range(2, vsim::tier_scale() > 1 && wl.chance(0.5) ? 14 : 8);
    int nspan = 0, nscope = 0;
    std::vector<int> open_scopes;
    std::vector<int> unended;
    for (int i = 0; i < n; ++i)
    {
      double r = wl.real();
      if ((r < 0.55 || nspan == 0) && nspan < kSpans)
      {
        int mode = (int)wl.below(M_NMODES);
        if (wl.chance(0.3))
          mode = M_IMPLICIT;
        p.ops.push_back({OP_START, nspan, mode, (int64_t)wl.below(std::max(1, nspan)) +
                                                    (mode == M_SPANCTX_REMOTE || mode == M_CONTEXT_REMOTE
                                                         ? (int64_t)wl.below(kRemotes)
                                                         : 0),
                         (int64_t)wl.below(ntasks)});
        unended.push_back(nspan++);
      }
      else if (r < 0.75 && nscope < kScopes)
      {
        p.ops.push_back({OP_SCOPE_BEGIN, (int64_t)wl.below(nspan), nscope, (int64_t)wl.chance(0.12), 0});
        open_scopes.push_back(nscope++);
      }
      else if (r < 0.87 && !open_scopes.empty())
      {
        p.ops.push_back({OP_SCOPE_END, open_scopes.back(), 0, 0, 0});
        open_scopes.pop_back();
      }
      else if (!unended.empty())
      {
        size_t pos = wl.below(unended.size());
        p.ops.push_back({OP_END, unended[pos], 0, 0, 0});
        unended.erase(unended.begin() + pos);
      }
    }
    // a fork somewhere after the first StartSpan, followed by spans the parent starts afterwards
    if (wl.chance(0.04) && nspan > 0 && nspan + 2 <= kSpans)
    {
      size_t first = 0;
      while (first < p.ops.size() && p.ops[first].kind != OP_START)
        ++first;
      size_t at = first + 1 + wl.below(p.ops.size() - first);
      std::vector<Op> tail(p.ops.begin() + at, p.ops.end());
      p.ops.resize(at);
      p.ops.push_back({OP_FORK, (int64_t)wl.below(3), 0, 0, 0});
      p.ops.push_back({OP_START, nspan++, wl.chance(0.5) ? M_IMPLICIT : M_CONTEXT_ROOT, 0, 0});
      p.ops.push_back({OP_START, nspan++, wl.chance(0.5) ? M_SPANCTX_REMOTE : M_CONTEXT_ROOT, 1, 0});
      p.ops.insert(p.ops.end(), tail.begin(), tail.end());
      if (c.stratum.find(".fork") == std::string::npos)
        c.stratum += ".fork";
    }
    c.tasks.push_back(p);
  }
  vsim::draw_run_config(fl, sk, c.rc);
}

void body(const Case &c)
{
  hist().clear();
  World w;
  W   = &w;
  w.c = &c;
  w.spans.resize(c.tasks.size());
  for (auto &v : w.spans)
    v.resize(kSpans);
  static const uint8_t flagbytes[kRemotes] = {0x00, 0x01, 0x02, 0x03, 0xff, 0x80};
  static const char *states[kRemotes]      = {"", "a=1", "k1=v1,k2=v2", "", "vendor=x", "a=1"};
  for (int i = 0; i < kRemotes; ++i)
  {
    uint8_t t[16] = {0xaa, 0xbb, (uint8_t)i, 1, 2, 3, 4, 5, 6, 7, 8, 9, 10, 11, 12, 13};
    uint8_t s[8]  = {0xcc, (uint8_t)i, 1, 2, 3, 4, 5, 6};
    w.remotes.emplace_back(trace_api::TraceId(t), trace_api::SpanId(s),
                           trace_api::TraceFlags(flagbytes[i]), i % 2 == 0,
                           trace_api::TraceState::FromHeader(states[i]));
    w.trace_ids.insert(tid(trace_api::TraceId(t)));
  }
  int sk      = (int)c.knob("sampler", 0);
  w.oracle    = make_sampler(sk);
  {
    std::unique_ptr<sdktrace::SpanExporter> exp(new CaptureExporter);
    std::unique_ptr<sdktrace::SpanProcessor> proc(new sdktrace::SimpleSpanProcessor(std::move(exp)));
    std::unique_ptr<sdktrace::IdGenerator> gen;
    if (c.knob("idgen", 0))
      gen.reset(new SeqIdGenerator);
    else
      gen.reset(new sdktrace::RandomIdGenerator);
    sdktrace::TracerProvider prov(std::move(proc), Resource::GetEmpty(), make_sampler_unique(sk),
                                  std::move(gen));
    w.tracer = prov.GetTracer("ident");
    run_tasks(c, [&](int i, const TaskProg &t) { run_program(i, t); });
    // spans that were never ended are ended by their destructor when released
    for (auto &v : w.spans)
      for (auto &r : v)
        r.span = nostd::shared_ptr<trace_api::Span>();
    w.tracer = nostd::shared_ptr<trace_api::Tracer>();
  }
  // ---- exported identity = the span's context; non-recorded spans never exported
  for (size_t t = 0; t < w.spans.size(); ++t)
    for (auto &r : w.spans[t])
    {
      if (!r.started)
        continue;
      auto it = w.exported.find(r.span_id);
      if (!r.recording)
      {
        if (it != w.exported.end())
          vsim::report("C05.dropped_span_exported",
                       fmt("span %s was not recorded but reached the exporter", r.span_id.c_str()));
        continue;
      }
      if (it == w.exported.end() || it->second.count != 1)
      {
        vsim::report("C05.export_count",
                     fmt("recorded span %s reached the exporter %d times", r.span_id.c_str(),
                         it == w.exported.end() ? 0 : it->second.count));
        continue;
      }
      const Exported &e = it->second;
      if (e.trace_id != r.trace_id || e.parent_id != r.expect_parent || e.flags != r.flags)
        vsim::report("C05.exported_identity",
                     fmt("span %s exported with trace %s parent %s flags %02x, expected trace %s "
                         "parent %s flags %02x",
                         r.span_id.c_str(), e.trace_id.c_str(), e.parent_id.c_str(), e.flags,
                         r.trace_id.c_str(), r.expect_parent.c_str(), r.flags));
      if (e.has_sampler_attr != r.expect_sampler_attr)
        vsim::report("C05.sampler_attributes", fmt("span %s: sampler attributes %s", r.span_id.c_str(),
                                                   e.has_sampler_attr ? "unexpected" : "missing"));
    }
  W = nullptr;
}

void check(const Case &, const vsim::RunResult &) {}

std::string describe_op(const Case &, int, const Op &op)
{
  static const char *modes[] = {"implicit (active span)",
                                "SpanContext of own span",
                                "remote SpanContext",
                                "Context carrying own span",
                                "Context marked root",
                                "Context without span",
                                "invalid SpanContext",
                                "SpanContext of another task's span",
                                "Context carrying remote span",
                                "Context marked root AND carrying own span",
                                "Context with root marker = false",
                                "Context marked root, marker then overwritten with false"};
  switch (op.kind)
  {
    case OP_START:
      return fmt("span[%lld] = StartSpan(parent: %s, ref %lld, task %lld)", (long long)op.a,
                 modes[op.b % M_NMODES], (long long)op.c, (long long)op.d);
    case OP_SCOPE_BEGIN:
      return (op.c & 1) ? fmt("scope[%lld] = Scope(span with an invalid, non-zero context)", (long long)op.b)
                        : fmt("scope[%lld] = Scope(span[%lld])", (long long)op.b, (long long)op.a);
    case OP_SCOPE_END:
      return fmt("destroy scope[%lld]", (long long)op.a);
    case OP_END:
      return fmt("span[%lld]->End()", (long long)op.a);
    case OP_FORK:
      return fmt("fork(): the child starts %lld root spans and %lld children of a remote parent",
                 1 + (long long)(op.a % 3), 1 + (long long)(op.a % 3));
  }
  return "?";
}
std::string describe_fault(const Case &, const Fault &)
{
  return "";
}

const char *const kProps[] = {"C05", nullptr};
const std::pair<const char *, int64_t> kShrink[] = {{nullptr, 0}};
const char *const kReal[] = {"sdk/trace/tracer.cc (StartSpan)", "sdk/trace/span.cc",
                             "sdk/trace/tracer_provider.cc, tracer_context.cc",
                             "sdk/trace/samplers/* (also used as decision oracle)",
                             "sdk/trace/random_id_generator.cc, sdk/common/random.cc "
                             "(thread-local, seeded from the simulated random_device)",
                             "api/trace/scope.h, context.h, span_context.h, trace_flags.h, noop.h",
                             "api/context/runtime_context.h",
                             "sdk/trace/simple_processor.h, multi_span_processor.h, span_data.h",
                             nullptr};
const char *const kStub[] = {"SpanExporter (captures identity fields)",
                             "scripted Sampler (decision / trace state / attributes as a function "
                             "of the span name)",
                             "sequential IdGenerator (IsRandom() == false)", nullptr};
}  // namespace

namespace vsim
{
const EngineDesc g_engine = {
    "ident",
    kProps,
    generate,
    body,
    check,
    describe_op,
    describe_fault,
    kShrink,
    kReal,
    kStub,
    "one run = 1-3 tasks x 2-8 operations (a fifth of the runs: scope nests up to depth 33 that unwind and re-grow, with implicit-parent probes) (StartSpan with one of twelve parenting modes: implicit, "
    "explicit SpanContext own/remote/invalid/other task's, explicit Context with span / root "
    "marker / neither / remote / both / marker false / marker cleared; Scope begin/end; End) under one of seven sampler "
    "configurations and a random or sequential id generator; remote parents carry flag bytes "
    "00 01 02 03 ff 80 and trace states; every started span is checked against the model "
    "(precedence, id inheritance / freshness / uniqueness across tasks, sampled flag = decision, "
    "W3C level-1 bits only, trace state, recording), every exported SpanData against its span; "
    "distinct = distinct (workload hash, trace hash); non-trivial = >= 2 tasks and >= 1 context "
    "switch while a task was inside an operation"};
}
