// span engine - C04: an exported span carries exactly what was recorded before
// End. 1-2 spans are mutated by 1-2 simulated tasks racing End, through 1-3
// processors of mixed kind; every buffer handed to the API is overwritten and
// freed when the call returns; exported SpanData is compared with a model.
#include "harness.h"
#include "values.h"

#include "opentelemetry/sdk/resource/resource.h"
#include "opentelemetry/sdk/trace/batch_span_processor.h"
#include "opentelemetry/sdk/trace/batch_span_processor_options.h"
#include "opentelemetry/sdk/trace/exporter.h"
#include "opentelemetry/sdk/trace/samplers/always_on.h"
#include "opentelemetry/sdk/trace/simple_processor.h"
#include "opentelemetry/sdk/trace/span_data.h"
#include "opentelemetry/sdk/trace/tracer.h"
#include "opentelemetry/sdk/trace/tracer_context.h"
#include "opentelemetry/sdk/trace/tracer_provider.h"
#include "opentelemetry/trace/span_context_kv_iterable.h"
#include "opentelemetry/trace/span_startoptions.h"

using namespace hz;
namespace nostd     = opentelemetry::nostd;
namespace trace_api = opentelemetry::trace;
namespace sdktrace  = opentelemetry::sdk::trace;
namespace sdkcommon = opentelemetry::sdk::common;
namespace common    = opentelemetry::common;
using opentelemetry::sdk::resource::Resource;

namespace
{
enum OpKind
{
  OP_SETATTR = 1,  // a=span b=key index c=alt d=seed
  OP_ADDEVENT,     // a=span b=overload 0..3 d=seed
  OP_SETSTATUS,    // a=span b=code d=seed
  OP_UPDATENAME,   // a=span d=seed
  OP_END,          // a=span b=explicit end (steady ns offset from start, 0 = now)
  OP_ADDPROC       // a further (simple) processor is added to the provider while spans are in flight
};
enum EvType
{
  E_START_INV = 1,  // a=span b=sys now c=steady now
  E_START_RET,
  E_OP_INV,         // a=task b=op index c=sys now d=steady now
  E_OP_RET,
  E_RELEASE_INV,    // a=span (root drops the last reference: destructor End)
  E_RELEASE_RET
};
const int kMaxSpans = 2, kLate = 2;

struct Snap
{
  std::string name, status_desc, trace_id, span_id;
  int kind = 0, status = 0;
  int64_t start_ns = 0, duration_ns = 0;
  std::map<std::string, std::string> attrs;
  struct Evt
  {
    std::string name;
    int64_t ts;
    std::map<std::string, std::string> attrs;
  };
  std::vector<Evt> events;
  struct Lnk
  {
    std::string trace_id, span_id;
    std::map<std::string, std::string> attrs;
  };
  std::vector<Lnk> links;
  const void *resource = nullptr, *scope = nullptr;
  bool same_content(const Snap &o) const
  {
    if (name != o.name || status_desc != o.status_desc || kind != o.kind || status != o.status ||
        start_ns != o.start_ns || duration_ns != o.duration_ns || attrs != o.attrs ||
        events.size() != o.events.size() || links.size() != o.links.size() ||
        resource != o.resource || scope != o.scope || trace_id != o.trace_id)
      return false;
    for (size_t i = 0; i < events.size(); ++i)
      if (events[i].name != o.events[i].name || events[i].ts != o.events[i].ts ||
          events[i].attrs != o.events[i].attrs)
        return false;
    for (size_t i = 0; i < links.size(); ++i)
      if (links[i].span_id != o.links[i].span_id || links[i].attrs != o.links[i].attrs)
        return false;
    return true;
  }
};

std::string hex(const uint8_t *p, size_t n)
{
  std::string s;
  for (size_t i = 0; i < n; ++i)
    s += fmt("%02x", p[i]);
  return s;
}

std::map<std::string, std::string> canon_map(
    const std::unordered_map<std::string, sdkcommon::OwnedAttributeValue> &m)
{
  std::map<std::string, std::string> o;
  for (auto &kv : m)
    o[kv.first] = val::canon(kv.second);
  return o;
}

Snap snap_of(const sdktrace::SpanData &sd)
{
  Snap s;
  s.name        = std::string(sd.GetName());
  s.status_desc = std::string(sd.GetDescription());
  s.kind        = (int)sd.GetSpanKind();
  s.status      = (int)sd.GetStatus();
  s.start_ns    = sd.GetStartTime().time_since_epoch().count();
  s.duration_ns = sd.GetDuration().count();
  s.attrs       = canon_map(sd.GetAttributes());
  s.trace_id    = hex(sd.GetTraceId().Id().data(), 16);
  s.span_id     = hex(sd.GetSpanId().Id().data(), 8);
  for (auto &e : sd.GetEvents())
    s.events.push_back({e.GetName(), e.GetTimestamp().time_since_epoch().count(),
                        canon_map(e.GetAttributes())});
  for (auto &l : sd.GetLinks())
    s.links.push_back({hex(l.GetSpanContext().trace_id().Id().data(), 16),
                       hex(l.GetSpanContext().span_id().Id().data(), 8),
                       canon_map(l.GetAttributes())});
  s.resource = &sd.GetResource();
  s.scope    = &sd.GetInstrumentationScope();
  return s;
}

struct World;
World *W = nullptr;

// Recordable of processor 0: delegates to a real SpanData and yields inside
// every setter, i.e. inside Span::mu_'s critical section.
class YieldingRecordable final : public sdktrace::Recordable
{
public:
  sdktrace::SpanData data;
  int inside = 0;
  struct Guard
  {
    YieldingRecordable *r;
    explicit Guard(YieldingRecordable *r_) : r(r_)
    {
      if (++r->inside > 1)
        vsim::report("C04.recordable_race",
                     "two threads are inside one span's recordable at the same time");
      vsim::yield_cs();
    }
    ~Guard() { --r->inside; }
  };
  void SetIdentity(const trace_api::SpanContext &c, trace_api::SpanId p) noexcept override
  {
    hz::HarnessCode hc_;
    Guard g(this);
    data.SetIdentity(c, p);
  }
  void SetAttribute(nostd::string_view k, const common::AttributeValue &v) noexcept override
  {
    hz::HarnessCode hc_;
    Guard g(this);
    data.SetAttribute(k, v);
    vsim::yield_cs();
  }
  void AddEvent(nostd::string_view n,
                common::SystemTimestamp ts,
                const common::KeyValueIterable &a) noexcept override
  {
    hz::HarnessCode hc_;
    Guard g(this);
    data.AddEvent(n, ts, a);
    vsim::yield_cs();
  }
  void AddLink(const trace_api::SpanContext &c, const common::KeyValueIterable &a) noexcept override
  {
    hz::HarnessCode hc_;
    Guard g(this);
    data.AddLink(c, a);
  }
  void SetStatus(trace_api::StatusCode c, nostd::string_view d) noexcept override
  {
    hz::HarnessCode hc_;
    Guard g(this);
    data.SetStatus(c, d);
    vsim::yield_cs();
  }
  void SetName(nostd::string_view n) noexcept override
  {
    hz::HarnessCode hc_;
    Guard g(this);
    data.SetName(n);
    vsim::yield_cs();
  }
  void SetTraceFlags(trace_api::TraceFlags f) noexcept override
  {
    hz::HarnessCode hc_;
    Guard g(this);
    data.SetTraceFlags(f);
  }
  void SetSpanKind(trace_api::SpanKind k) noexcept override
  {
    hz::HarnessCode hc_;
    Guard g(this);
    data.SetSpanKind(k);
  }
  void SetResource(const Resource &r) noexcept override
  {
    hz::HarnessCode hc_;
    Guard g(this);
    data.SetResource(r);
  }
  void SetStartTime(common::SystemTimestamp t) noexcept override
  {
    hz::HarnessCode hc_;
    Guard g(this);
    data.SetStartTime(t);
  }
  void SetDuration(std::chrono::nanoseconds d) noexcept override
  {
    hz::HarnessCode hc_;
    Guard g(this);
    data.SetDuration(d);
    vsim::yield_cs();
  }
  void SetInstrumentationScope(const sdktrace::InstrumentationScope &s) noexcept override
  {
    hz::HarnessCode hc_;
    Guard g(this);
    data.SetInstrumentationScope(s);
  }
};

struct World
{
  const Case *c = nullptr;
  // per exporter: span id -> snaps received
  std::vector<std::map<std::string, std::vector<Snap>>> got;
  sdktrace::TracerProvider *prov = nullptr;
  int nproc = 0, late = 0;  // late: processors added by OP_ADDPROC (at most kLate)
  std::vector<nostd::shared_ptr<trace_api::Span>> spans;
  std::vector<std::string> span_ids;
  const void *resource = nullptr, *scope = nullptr, *scope2 = nullptr;
};

class CaptureExporter final : public sdktrace::SpanExporter
{
public:
  explicit CaptureExporter(int idx) : idx_(idx) {}
  std::unique_ptr<sdktrace::Recordable> MakeRecordable() noexcept override
  {
    hz::HarnessCode hc_;
    if (idx_ == 0)
      return std::unique_ptr<sdktrace::Recordable>(new YieldingRecordable);
    return std::unique_ptr<sdktrace::Recordable>(new sdktrace::SpanData);
  }
  sdkcommon::ExportResult Export(
      const nostd::span<std::unique_ptr<sdktrace::Recordable>> &spans) noexcept override
  {
    hz::HarnessCode hc_;
    for (auto &r : spans)
    {
      if (!r)
        continue;
      const sdktrace::SpanData *sd =
          idx_ == 0 ? &static_cast<YieldingRecordable *>(r.get())->data
                    : static_cast<sdktrace::SpanData *>(r.get());
      Snap s = snap_of(*sd);
      W->got[idx_][s.span_id].push_back(s);
    }
    vsim::yield();
    return sdkcommon::ExportResult::kSuccess;
  }
  bool ForceFlush(std::chrono::microseconds) noexcept override { hz::HarnessCode hc_; return true; }
  bool Shutdown(std::chrono::microseconds) noexcept override { hz::HarnessCode hc_; return true; }

private:
  int idx_;
};

// ---- deterministic content derived from seeds (shared by the run and the model)
std::string name_of(uint64_t seed)
{
  return "n" + val::hexs(val::gen_string(seed, true));
}
std::string key_of(int task, int64_t k)
{
  return k == 3 ? std::string() + (char)('A' + task)  // short key
                : fmt("t%d.k%lld", task, (long long)k);
}
std::string event_name(int task, int opi)
{
  return fmt("t%d.e%d", task, opi);
}
int64_t event_ts(uint64_t seed)
{
  return 1000000000000ll + (int64_t)(val::h64(seed) % 1000000);
}
const int64_t kExplicitStartSys    = 1600000000123456789ll;
const int64_t kExplicitStartSteady = 5000000000ll;

nostd::shared_ptr<trace_api::Tracer> g_tracer, g_tracer2;
const int64_t kSysBaseNs = 1700000000ll * 1000000000ll;  // vsim's system clock = base + steady

void start_span(World &w, int s)
{
  const Case &c = *w.c;
  val::Scratch sc;
  trace_api::StartSpanOptions opts;
  opts.kind = (trace_api::SpanKind)c.knob(fmt("s%d_kind", s).c_str(), 0);
  // 0 none, 1 both, 2 system time only, 3 steady time only
  int start_mode = (int)c.knob(fmt("s%d_explicit_start", s).c_str(), 0);
  if (start_mode == 1 || start_mode == 2)
    opts.start_system_time =
        common::SystemTimestamp(std::chrono::nanoseconds(kExplicitStartSys + s));
  if (start_mode == 1 || start_mode == 3)
    opts.start_steady_time =
        common::SteadyTimestamp(std::chrono::nanoseconds(kExplicitStartSteady + s));
  uint64_t aseed = (uint64_t)c.knob(fmt("s%d_attr_seed", s).c_str(), 0);
  uint64_t lseed = (uint64_t)c.knob(fmt("s%d_link_seed", s).c_str(), 0);
  std::vector<val::KV> kvs = val::gen_kvs(aseed, "start.");
  val::ScratchIterable attrs(kvs, sc);
  int nlinks = (int)(lseed % 3);
  std::vector<std::pair<trace_api::SpanContext, std::map<std::string, std::string>>> links;
  std::vector<std::string *> keep;
  for (int i = 0; i < nlinks; ++i)
  {
    uint8_t t[16] = {0x11, (uint8_t)s, (uint8_t)i, 4, 5, 6, 7, 8, 9, 10, 11, 12, 13, 14, 15, 16};
    uint8_t p[8]  = {0x22, (uint8_t)s, (uint8_t)i, 4, 5, 6, 7, 8};
    std::map<std::string, std::string> la;
    if ((lseed >> (4 + i)) & 1)
      la["link.k"] = fmt("v%d", i);
    links.emplace_back(
        trace_api::SpanContext(trace_api::TraceId(t), trace_api::SpanId(p), trace_api::TraceFlags(1),
                               true),
        la);
  }
  std::string nm = name_of((uint64_t)c.knob(fmt("s%d_name_seed", s).c_str(), 0));
  ev(E_START_INV, s, vsim::peek_now_ns());
  nostd::string_view nview = sc.view(nm);
  // the second span comes from a second tracer: its scope must be that tracer's
  auto &tracer = s == 1 ? g_tracer2 : g_tracer;
  if (nlinks)
    w.spans[s] = tracer->StartSpan(nview, attrs,
                                     trace_api::SpanContextKeyValueIterableView<decltype(links)>(links),
                                     opts);
  else
    w.spans[s] = tracer->StartSpan(nview, attrs, opts);
  sc.release();
  ev(E_START_RET, s, vsim::peek_now_ns());
  auto ctx      = w.spans[s]->GetContext();
  w.span_ids[s] = hex(ctx.span_id().Id().data(), 8);
}

void run_program(World &w, int idx, const TaskProg &t)
{
  for (size_t oi = 0; oi < t.ops.size(); ++oi)
  {
    const Op &op = t.ops[oi];
    vsim::yield();
    if (op.kind == OP_ADDPROC)
    {
      // TracerProvider::AddProcessor with spans in flight, from the only application task (the
      // call is documented as not thread safe). Every span of the run was started
      // before, so nothing is demanded of the late processor's exporter (it may or may not see
      // those spans); the processors configured from the start must be unaffected.
      if (w.late < kLate && w.prov)
      {
        int x = w.nproc + w.late++;
        std::unique_ptr<sdktrace::SpanExporter> e(new CaptureExporter(x));
        std::unique_ptr<sdktrace::SpanProcessor> p(new sdktrace::SimpleSpanProcessor(std::move(e)));
        InOp io;
        w.prov->AddProcessor(std::move(p));
        vsim::probe("span.processor_added_with_spans_in_flight");
      }
      continue;
    }
    trace_api::Span *sp = w.spans[op.a % w.spans.size()].get();
    val::Scratch sc;
    ev(E_OP_INV, idx, (int64_t)oi, vsim::peek_now_ns());
    {
      InOp io;
      switch (op.kind)
      {
        case OP_SETATTR: {
          nostd::string_view k = sc.view(key_of(idx, op.b));
          auto v               = val::build((int)op.c, (uint64_t)op.d, sc);
          sp->SetAttribute(k, v);
          break;
        }
        case OP_ADDEVENT: {
          nostd::string_view n = sc.view(event_name(idx, (int)oi));
          std::vector<val::KV> kvs = val::gen_kvs((uint64_t)op.d, "ev.");
          val::ScratchIterable attrs(kvs, sc);
          common::SystemTimestamp ts(std::chrono::nanoseconds(event_ts((uint64_t)op.d)));
          switch (op.b)
          {
            case 0:
              sp->AddEvent(n);
              break;
            case 1:
              sp->AddEvent(n, ts);
              break;
            case 2:
              sp->AddEvent(n, attrs);
              break;
            default:
              sp->AddEvent(n, ts, attrs);
          }
          break;
        }
        case OP_SETSTATUS: {
          nostd::string_view d = sc.view(name_of((uint64_t)op.d));
          sp->SetStatus((trace_api::StatusCode)op.b, d);
          break;
        }
        case OP_UPDATENAME: {
          nostd::string_view n = sc.view(name_of((uint64_t)op.d));
          sp->UpdateName(n);
          break;
        }
        case OP_END: {
          trace_api::EndSpanOptions eo;
          if (op.b)
            eo.end_steady_time = common::SteadyTimestamp(std::chrono::nanoseconds(op.b));
          sp->End(eo);
          break;
        }
        default:
          break;
      }
    }
    sc.release();  // the caller's buffers die as soon as the call returns
    ev(E_OP_RET, idx, (int64_t)oi, vsim::peek_now_ns());
  }
}

void body(const Case &c)
{
  hist().clear();
  World w;
  W   = &w;
  w.c = &c;
  int nproc = (int)c.knob("nproc", 1), layout = (int)c.knob("layout", 0);
  int nspans = (int)c.knob("nspans", 1);
  w.got.resize(nproc + kLate);
  w.nproc = nproc;
  w.spans.resize(nspans);
  w.span_ids.resize(nspans);
  {
    std::vector<std::unique_ptr<sdktrace::SpanProcessor>> procs;
    for (int i = 0; i < nproc; ++i)
    {
      std::unique_ptr<sdktrace::SpanExporter> e(new CaptureExporter(i));
      if ((layout >> i) & 1)
      {
        sdktrace::BatchSpanProcessorOptions o;
        o.max_queue_size        = 8;
        o.max_export_batch_size = (size_t)c.knob("max_batch", 2);
        o.schedule_delay_millis = std::chrono::milliseconds(c.knob("delay_ms", 5));
        procs.emplace_back(new sdktrace::BatchSpanProcessor(std::move(e), o));
      }
      else
        procs.emplace_back(new sdktrace::SimpleSpanProcessor(std::move(e)));
    }
    // every public way to the same pipeline: processor list, a single processor, a ready-made
    // context, processors added after construction
    std::unique_ptr<sdktrace::TracerProvider> provp;
    auto res = Resource::Create({{"service.name", "vsim"}});
    switch ((int)c.knob("prov_route", 0))
    {
      case 1:
        if (procs.size() == 1)
        {
          provp.reset(new sdktrace::TracerProvider(std::move(procs[0]), res));
          break;
        }
        // fall through
      case 2: {
        std::unique_ptr<sdktrace::TracerContext> cx(new sdktrace::TracerContext(std::move(procs), res));
        provp.reset(new sdktrace::TracerProvider(std::move(cx)));
        break;
      }
      case 3: {
        std::vector<std::unique_ptr<sdktrace::SpanProcessor>> first;
        first.push_back(std::move(procs[0]));
        provp.reset(new sdktrace::TracerProvider(std::move(first), res));
        for (size_t i = 1; i < procs.size(); ++i)
          provp->AddProcessor(std::move(procs[i]));
        break;
      }
      default:
        provp.reset(new sdktrace::TracerProvider(std::move(procs), res));
    }
    sdktrace::TracerProvider &prov = *provp;
    w.prov = &prov;
    g_tracer   = prov.GetTracer("span-engine", "1.0");
    w.resource = &prov.GetResource();
    w.scope    = &static_cast<sdktrace::Tracer *>(g_tracer.get())->GetInstrumentationScope();
    g_tracer2  = prov.GetTracer("span-engine-2", "2.0");
    w.scope2   = &static_cast<sdktrace::Tracer *>(g_tracer2.get())->GetInstrumentationScope();
    for (int s = 0; s < nspans; ++s)
      start_span(w, s);
    run_tasks(c, [&](int i, const TaskProg &t) { run_program(w, i, t); });
    // dropping the last reference ends a span that was never ended
    for (int s = 0; s < nspans; ++s)
    {
      ev(E_RELEASE_INV, s, vsim::peek_now_ns());
      w.spans[s] = nostd::shared_ptr<trace_api::Span>(nullptr);
      ev(E_RELEASE_RET, s, vsim::peek_now_ns());
    }
    prov.ForceFlush();
    w.prov    = nullptr;
    g_tracer  = nostd::shared_ptr<trace_api::Tracer>(nullptr);
    g_tracer2 = nostd::shared_ptr<trace_api::Tracer>(nullptr);
  }
  W = nullptr;
  static World keep;
  keep = w;
  W    = &keep;  // for check()
}

// -------------------------------------------------------------------- oracle
struct OpRec
{
  int task, opi;
  Op op;
  size_t inv = 0, ret = 0;
  int64_t t_inv = 0, t_ret = 0;  // simulated steady ns around the call
};

Snap model_for(const Case &c,
               int s,
               const std::vector<std::vector<OpRec>> &per_task,
               const std::vector<size_t> &cut)
{
  Snap m;
  m.name = name_of((uint64_t)c.knob(fmt("s%d_name_seed", s).c_str(), 0));
  m.kind = (int)c.knob(fmt("s%d_kind", s).c_str(), 0);
  for (auto &kv : val::expect_map(val::gen_kvs((uint64_t)c.knob(fmt("s%d_attr_seed", s).c_str(), 0),
                                               "start.")))
    m.attrs[kv.first] = kv.second;
  uint64_t lseed = (uint64_t)c.knob(fmt("s%d_link_seed", s).c_str(), 0);
  int nlinks     = (int)(lseed % 3);
  for (int i = 0; i < nlinks; ++i)
  {
    uint8_t p[8] = {0x22, (uint8_t)s, (uint8_t)i, 4, 5, 6, 7, 8};
    Snap::Lnk l;
    l.span_id = hex(p, 8);
    if ((lseed >> (4 + i)) & 1)
      l.attrs["link.k"] = "s:" + val::hexs(fmt("v%d", i));
    m.links.push_back(l);
  }
  for (size_t t = 0; t < per_task.size(); ++t)
    for (size_t i = 0; i < cut[t]; ++i)
    {
      const OpRec &r = per_task[t][i];
      switch (r.op.kind)
      {
        case OP_SETATTR:
          m.attrs[key_of(r.task, r.op.b)] = val::expect((int)r.op.c, (uint64_t)r.op.d);
          break;
        case OP_SETSTATUS:
          m.status      = (int)r.op.b;
          m.status_desc = name_of((uint64_t)r.op.d);
          break;
        case OP_UPDATENAME:
          m.name = name_of((uint64_t)r.op.d);
          break;
        default:
          break;
      }
    }
  return m;
}

void check(const Case &c, const vsim::RunResult &)
{
  World &w      = *W;
  const auto &H = hist();
  int nproc     = (int)c.knob("nproc", 1);
  int nspans    = (int)c.knob("nspans", 1);
  // collect op records
  std::map<std::pair<int, int>, OpRec> ops;
  std::vector<size_t> start_inv(nspans), start_ret(nspans), rel_inv(nspans), rel_ret(nspans);
  std::vector<int64_t> start_tinv(nspans), start_tret(nspans), rel_tinv(nspans), rel_tret(nspans);
  for (size_t i = 0; i < H.size(); ++i)
  {
    const Ev &e = H[i];
    switch (e.type)
    {
      case E_OP_INV: {
        OpRec &r = ops[{(int)e.a, (int)e.b}];
        r.task   = (int)e.a;
        r.opi    = (int)e.b;
        r.op     = c.tasks[e.a].ops[e.b];
        r.inv    = i;
        r.t_inv  = e.c;
        break;
      }
      case E_OP_RET: {
        OpRec &r = ops[{(int)e.a, (int)e.b}];
        r.ret    = i;
        r.t_ret  = e.c;
        break;
      }
      case E_START_INV:
        start_inv[e.a]  = i;
        start_tinv[e.a] = e.b;
        break;
      case E_START_RET:
        start_ret[e.a]  = i;
        start_tret[e.a] = e.b;
        break;
      case E_RELEASE_INV:
        rel_inv[e.a]  = i;
        rel_tinv[e.a] = e.b;
        break;
      case E_RELEASE_RET:
        rel_ret[e.a]  = i;
        rel_tret[e.a] = e.b;
        break;
    }
  }
  for (int s = 0; s < nspans; ++s)
  {
    const std::string &id = w.span_ids[s];
    // ---- once per processor, identical copies
    const Snap *first = nullptr;
    bool ok           = true;
    for (int x = 0; x < nproc; ++x)
    {
      auto it  = w.got[x].find(id);
      size_t n = it == w.got[x].end() ? 0 : it->second.size();
      if (n != 1)
      {
        vsim::report("C04.export_count",
                     fmt("span %d reached exporter %d %zu times (expected exactly once)", s, x, n));
        ok = false;
        continue;
      }
      if (!first)
        first = &it->second[0];
      else if (!first->same_content(it->second[0]))
        vsim::report("C04.copies_differ",
                     fmt("span %d: exporter %d received different content than exporter 0", s, x));
    }
    if (!ok || !first)
      continue;
    const Snap &g = *first;
    // ---- End calls on this span: the effective one took place between lo and hi
    std::vector<std::vector<OpRec>> per_task(c.tasks.size());
    struct EndCall
    {
      size_t inv, ret;
      int64_t t_inv, t_ret, explicit_end;
    };
    std::vector<EndCall> ends;
    for (auto &kv : ops)
    {
      const OpRec &r = kv.second;
      if ((int)(r.op.a % nspans) != s)
        continue;
      if (r.op.kind == OP_END)
        ends.push_back({r.inv, r.ret, r.t_inv, r.t_ret, r.op.b});
      else
        per_task[r.task].push_back(r);
    }
    ends.push_back({rel_inv[s], rel_ret[s], rel_tinv[s], rel_tret[s], 0});
    size_t lo = SIZE_MAX, hi = SIZE_MAX;
    for (auto &e : ends)
    {
      lo = std::min(lo, e.inv);
      hi = std::min(hi, e.ret);
    }
    // cut range per task
    std::vector<size_t> cmin(per_task.size()), cmax(per_task.size());
    bool any_maybe = false;
    for (size_t t = 0; t < per_task.size(); ++t)
    {
      size_t a = 0, b = 0;
      for (auto &r : per_task[t])
      {
        if (r.ret < lo)
          ++a;
        if (r.inv < hi)
          ++b;
      }
      cmin[t] = a;
      cmax[t] = b;
      if (a != b)
        any_maybe = true;
      if (b < per_task[t].size())
        vsim::probe("span.mutator_after_end");
    }
    if (any_maybe)
      vsim::probe("span.mutator_overlaps_end");
    // ---- fields that do not depend on the cut
    if (g.resource != w.resource)
      vsim::report("C04.resource", fmt("span %d: exported resource is not the provider's", s));
    if (g.scope != (s == 1 ? w.scope2 : w.scope))
      vsim::report("C04.scope", fmt("span %d: exported scope is not its tracer's", s));
    int64_t start_steady = -1;
    int start_mode       = (int)c.knob(fmt("s%d_explicit_start", s).c_str(), 0);
    if (start_mode == 1 || start_mode == 2)
    {
      if (g.start_ns != kExplicitStartSys + s)
        vsim::report("C04.start_time", fmt("span %d: explicit start time not preserved", s));
    }
    else if (g.start_ns < kSysBaseNs + start_tinv[s] || g.start_ns > kSysBaseNs + start_tret[s] + 4)
      vsim::report("C04.start_time",
                   fmt("span %d: implicit start time %lld is outside the StartSpan call "
                       "[%lld, %lld]",
                       s, (long long)g.start_ns, (long long)(kSysBaseNs + start_tinv[s]),
                       (long long)(kSysBaseNs + start_tret[s])));
    if (start_mode == 1 || start_mode == 3)
      start_steady = kExplicitStartSteady + s;
    // duration: matches one End call that could have been the effective one
    {
      bool dur_ok = false;
      for (auto &e : ends)
      {
        if (e.inv > hi)
          continue;
        int64_t s_lo = start_steady >= 0 ? start_steady : start_tinv[s];
        int64_t s_hi = start_steady >= 0 ? start_steady : start_tret[s] + 2;
        int64_t e_lo = e.explicit_end ? e.explicit_end : e.t_inv;
        int64_t e_hi = e.explicit_end ? e.explicit_end : e.t_ret + 2;
        if (g.duration_ns >= e_lo - s_hi && g.duration_ns <= e_hi - s_lo)
          dur_ok = true;
      }
      if (!dur_ok)
        vsim::report("C04.duration", fmt("span %d: duration %lld ns matches no End call", s,
                                         (long long)g.duration_ns));
    }
    // ---- enumerate the cuts: some prefix combination must explain the export exactly
    std::vector<size_t> cut = cmin;
    bool matched            = false;
    Snap last_model;
    for (;;)
    {
      Snap m = model_for(c, s, per_task, cut);
      // events: per task, the applied prefix; compare as sets + order constraints below
      std::vector<std::string> exp_events;
      std::map<std::string, const OpRec *> by_name;
      for (size_t t = 0; t < per_task.size(); ++t)
        for (size_t i = 0; i < cut[t]; ++i)
          if (per_task[t][i].op.kind == OP_ADDEVENT)
          {
            exp_events.push_back(event_name(per_task[t][i].task, per_task[t][i].opi));
            by_name[exp_events.back()] = &per_task[t][i];
          }
      bool same = m.name == g.name && m.kind == g.kind && m.status == g.status &&
                  m.status_desc == g.status_desc && m.attrs == g.attrs &&
                  g.events.size() == exp_events.size() && g.links.size() == m.links.size();
      if (same)
        for (size_t i = 0; i < m.links.size(); ++i)
          if (m.links[i].span_id != g.links[i].span_id || m.links[i].attrs != g.links[i].attrs)
            same = false;
      if (same)
      {
        // every exported event is an expected one with the right content, in an order that
        // respects program order and real-time order
        std::vector<const OpRec *> seq;
        for (auto &e : g.events)
        {
          auto it = by_name.find(e.name);
          if (it == by_name.end())
          {
            same = false;
            break;
          }
          const OpRec *r = it->second;
          seq.push_back(r);
          bool has_ts    = r->op.b == 1 || r->op.b == 3;
          bool has_attrs = r->op.b == 2 || r->op.b == 3;
          if (has_ts && e.ts != event_ts((uint64_t)r->op.d))
            same = false;
          auto ea = has_attrs ? val::expect_map(val::gen_kvs((uint64_t)r->op.d, "ev."))
                              : std::map<std::string, std::string>();
          if (e.attrs != ea)
            same = false;
        }
        for (size_t i = 0; same && i < seq.size(); ++i)
          for (size_t j = i + 1; j < seq.size(); ++j)
            if (seq[j]->ret < seq[i]->inv || seq[i] == seq[j])
              same = false;  // j completed before i began, yet i is listed first (or duplicate)
      }
      last_model = m;
      if (same)
      {
        matched = true;
        break;
      }
      // next cut combination
      size_t t = 0;
      for (; t < cut.size(); ++t)
      {
        if (cut[t] < cmax[t])
        {
          ++cut[t];
          break;
        }
        cut[t] = cmin[t];
      }
      if (t == cut.size())
        break;
    }
    if (!matched)
    {
      std::string why;
      if (last_model.name != g.name)
        why += " name";
      if (last_model.attrs != g.attrs)
        why += " attributes";
      if (last_model.status != g.status || last_model.status_desc != g.status_desc)
        why += " status";
      if (last_model.kind != g.kind)
        why += " kind";
      if (last_model.links.size() != g.links.size())
        why += " links";
      why += fmt(" events(%zu)", g.events.size());
      vsim::report("C04.content", fmt("span %d: exported content is explained by no cut of the "
                                      "operations around End; differing vs the latest cut:%s",
                                      s, why.c_str()));
    }
  }
  // nothing else was exported
  for (int x = 0; x < nproc; ++x)
    for (auto &kv : w.got[x])
      if (std::find(w.span_ids.begin(), w.span_ids.end(), kv.first) == w.span_ids.end())
        vsim::report("C04.unknown_span", fmt("exporter %d received an unknown span", x));
}

void generate(const std::string &, Rng &wl, Rng &fl, Case &c)
{
  vsim::SimKnobs sk;
  sk.allow_call_points = true;
  sk.allow_cv_spurious = true;
  sk.faults_on         = fl.chance(0.5);
  sk.typical_len       = 500;
  int nproc            = (int)wl.range(1, 3);
  int layout           = (int)wl.below(1 << nproc);
  int nspans           = (int)wl.range(1, kMaxSpans);
  int ntasks           = (int)wl.range(1, vsim::tier_scale() > 1 && wl.chance(0.3) ? 3 : 2);
  c.set("nproc", nproc);
  c.set("prov_route", wl.chance(0.5) ? 0 : (int64_t)wl.range(1, 3));
  c.set("layout", layout);
  c.set("nspans", nspans);
  c.set("max_batch", wl.range(1, 4));
  static const int64_t delays[] = {1, 5, 100};
  c.set("delay_ms", wl.pick(delays));
  for (int s = 0; s < nspans; ++s)
  {
    c.set(fmt("s%d_kind", s).c_str(), (int64_t)wl.below(5));
    c.set(fmt("s%d_explicit_start", s).c_str(), wl.chance(0.5) ? 0 : (int64_t)wl.range(1, 3));
    c.set(fmt("s%d_attr_seed", s).c_str(), (int64_t)(wl.next() >> 2));
    c.set(fmt("s%d_link_seed", s).c_str(), (int64_t)(wl.next() >> 2));
    c.set(fmt("s%d_name_seed", s).c_str(), (int64_t)(wl.next() >> 2));
  }
  c.stratum = fmt("p%d.t%d", nproc, ntasks);
  for (int t = 0; t < ntasks; ++t)
  {
    TaskProg p;
    int n = (int)wl.range(1, vsim::tier_scale() > 1 && wl.chance(0.5) ? 16 : 10);
    for (int i = 0; i < n; ++i)
    {
      int64_t s = (int64_t)wl.below(nspans);
      double r  = wl.real();
      if (r < 0.40)
        p.ops.push_back({OP_SETATTR, s, (int64_t)wl.below(4), (int64_t)wl.below(val::kAlts),
                         (int64_t)(wl.next() >> 2)});
      else if (r < 0.65)
        p.ops.push_back({OP_ADDEVENT, s, (int64_t)wl.below(4), 0, (int64_t)(wl.next() >> 2)});
      else if (r < 0.75 && (int)(s % ntasks) == t)
        p.ops.push_back({OP_SETSTATUS, s, (int64_t)wl.below(3), 0, (int64_t)(wl.next() >> 2)});
      else if (r < 0.85 && (int)(s % ntasks) == t)
        p.ops.push_back({OP_UPDATENAME, s, 0, 0, (int64_t)(wl.next() >> 2)});
      else if (r < 0.97)
        p.ops.push_back({OP_END, s, wl.chance(0.3) ? (int64_t)(6000000000ll + wl.below(1000)) : 0, 0, 0});
      else
        p.ops.push_back({OP_SETATTR, s, (int64_t)wl.below(4), (int64_t)wl.below(val::kAlts),
                         (int64_t)(wl.next() >> 2)});
    }
    // (AddProcessor is documented as not thread safe: only in single-task programs, i.e. between
    // the operations of the one application thread; batch workers may be exporting meanwhile)
    if (ntasks == 1 && wl.chance(0.2))
    {
      p.ops.insert(p.ops.begin() + (long)wl.below(p.ops.size() + 1), {OP_ADDPROC, 0, 0, 0, 0});
      if (c.stratum.find(".addproc") == std::string::npos)
        c.stratum += ".addproc";
    }
    c.tasks.push_back(p);
  }
  vsim::draw_run_config(fl, sk, c.rc);
  // MultiRecordable fans setters out in an order that depends on processor addresses; with
  // several processors the number of function boundaries crossed before a harness yield is
  // therefore not a function of the run, so call-boundary preemption stays off in those runs
  if (c.knob("nproc", 1) > 1)
  {
    c.rc.call_period = 0;
    c.rc.p_call      = 0;
  }
  c.rc.budget1 = 30000;
}

std::string describe_op(const Case &, int, const Op &op)
{
  switch (op.kind)
  {
    case OP_SETATTR:
      return fmt("span[%lld].SetAttribute(key %lld, alternative %lld, seed %llx)", (long long)op.a,
                 (long long)op.b, (long long)op.c, (unsigned long long)op.d);
    case OP_ADDEVENT:
      return fmt("span[%lld].AddEvent(overload %lld, seed %llx)", (long long)op.a, (long long)op.b,
                 (unsigned long long)op.d);
    case OP_SETSTATUS:
      return fmt("span[%lld].SetStatus(%lld, desc seed %llx)", (long long)op.a, (long long)op.b,
                 (unsigned long long)op.d);
    case OP_UPDATENAME:
      return fmt("span[%lld].UpdateName(seed %llx)", (long long)op.a, (unsigned long long)op.d);
    case OP_END:
      return fmt("span[%lld].End(%s)", (long long)op.a, op.b ? "explicit end time" : "now");
    case OP_ADDPROC:
      return "provider.AddProcessor(simple processor) while spans are in flight";
  }
  return "?";
}
std::string describe_fault(const Case &, const Fault &)
{
  return "";
}

const char *const kProps[] = {"C04", nullptr};
const std::pair<const char *, int64_t> kShrink[] = {{"nproc", 1}, {"nspans", 1}, {"layout", 0},
                                                    {nullptr, 0}};
const char *const kReal[] = {"sdk/trace/span.cc, span.h", "sdk/trace/span_data.h",
                             "sdk/trace/multi_recordable.h, multi_span_processor.h",
                             "sdk/common/attribute_utils.h (AttributeConverter, AttributeMap)",
                             "sdk/trace/tracer.cc, tracer_provider.cc, tracer_context.cc",
                             "sdk/trace/simple_processor.h, batch_span_processor.cc", nullptr};
const char *const kStub[] = {
    "SpanExporter (captures a deep snapshot of every SpanData it receives)",
    "Recordable of processor 0 (delegates to a real SpanData, yields inside every setter, counts "
    "concurrent entries)",
    nullptr};
}  // namespace

namespace vsim
{
const EngineDesc g_engine = {
    "span",
    kProps,
    generate,
    body,
    check,
    describe_op,
    describe_fault,
    kShrink,
    kReal,
    kStub,
    "one run = 1-3 processors (simple/batch mix), 1-2 spans started with generated kind / start "
    "times / attributes (all 16 AttributeValue alternatives incl. empty strings, embedded NULs, "
    "empty and 100-element arrays, duplicate keys) / links, then 1-2 tasks x 1-10 operations "
    "(SetAttribute, AddEvent x4 overloads, SetStatus, UpdateName, End with/without explicit time; "
    "second End and mutators after End arise from program order and races); every caller buffer "
    "is overwritten with 0xDD and freed when the call returns; the exported SpanData of every "
    "processor is compared with a model under every cut consistent with the real-time order of "
    "the calls around End; distinct = distinct (workload hash, trace hash); non-trivial = >= 2 "
    "tasks and >= 1 context switch while a task was inside an API operation. The input space "
    "(value alternatives, option combinations) is sampled by the generator, not searched."};
}
