// queue engine - C11: CircularBuffer<T> (MPSC, lock free) and SpinLockMutex
// recompiled against the shimmed std::atomic, so every atomic step is a
// schedule point.
#include "harness.h"

#include "opentelemetry/common/spin_lock_mutex.h"
#include "opentelemetry/sdk/common/circular_buffer.h"

using namespace hz;
using opentelemetry::common::SpinLockMutex;
using opentelemetry::sdk::common::AtomicUniquePtr;
using opentelemetry::sdk::common::CircularBuffer;
using opentelemetry::sdk::common::CircularBufferRange;

namespace
{
enum Role
{
  R_PROD = 0,
  R_CONS = 1,
  R_LOCK = 2
};
enum OpKind
{
  OP_ADD_L = 1,
  OP_ADD_R,
  OP_CONSUME_N,
  OP_CONSUME_ALL,
  OP_CONSUME_N_NOCB,
  OP_CLEAR,
  OP_PEEK,
  OP_SIZE,
  OP_LOCK,
  OP_TRYLOCK,
  OP_GUARD
};
enum EvType
{
  E_ADD_INV = 1,   // a=p b=k
  E_ADD_RET,       // a=p b=k c=result d=ptr state (1 ok)
  E_CONS_ENTRY,    // a=n
  E_CONSUMED,      // a=p b=k
  E_PEEK_BEGIN,
  E_PEEK_ELEM,     // a=p b=k
  E_PEEK_END,
  E_SIZE,          // a=value
  E_DTOR,          // a=p b=k
  E_NOCB_BEGIN,
  E_NOCB_END,
  E_FINAL_BEGIN,
  E_FINAL_END,
  E_EMPTY          // a=empty() result, b=size
};

struct Elem;
struct World
{
  int64_t live = 0;
  std::set<const Elem *> alive;
  // spin lock
  int occupancy = 0;
  bool held     = false;
  int64_t max_size = 0;
};
World *W = nullptr;

struct Elem
{
  int p, k;
  Elem(int p_, int k_) : p(p_), k(k_)
  {
    W->live++;
    W->alive.insert(this);
  }
  ~Elem()
  {
    if (!W->alive.erase(this))
      vsim::report("C11.double_free", fmt("element (%d,%d) destroyed twice", p, k));
    W->live--;
    ev(E_DTOR, p, k);
  }
};

typedef CircularBuffer<Elem> Buf;

void consume_cb(Buf &buf, size_t n)
{
  buf.Consume(n, [&](CircularBufferRange<AtomicUniquePtr<Elem>> range) noexcept {
    // no schedule point lies between `tail_ += n` and this line
    ev(E_CONS_ENTRY, (int64_t)n);
    range.ForEach([&](AtomicUniquePtr<Elem> &ptr) noexcept {
      std::unique_ptr<Elem> e;
      ptr.Swap(e);
      if (!e)
        vsim::report("C11.consumed_null", "a slot inside [tail, head) was empty");
      else
        ev(E_CONSUMED, e->p, e->k);
      return true;
    });
  });
}

void producer(Buf &buf, int p, const TaskProg &t)
{
  for (const Op &op : t.ops)
  {
    vsim::yield();
    int k = (int)op.a;
    std::unique_ptr<Elem> e(new Elem(p, k));
    Elem *raw = e.get();
    ev(E_ADD_INV, p, k);
    bool ok;
    int state = 1;
    {
      InOp io;
      if (op.kind == OP_ADD_L)
      {
        ok = buf.Add(e);
        if (ok && e)
          state = 0;  // success must take the element
        if (!ok && e.get() != raw)
          state = 0;  // failure must leave it with the caller
      }
      else
      {
        ok = buf.Add(std::move(e));
        if (e)
          state = 0;
      }
    }
    ev(E_ADD_RET, p, k, ok, state);
  }
}

void consumer(Buf &buf, const TaskProg &t)
{
  for (const Op &op : t.ops)
  {
    vsim::yield();
    InOp io;
    switch (op.kind)
    {
      case OP_CONSUME_N: {
        size_t sz = buf.size();
        size_t n  = std::min<size_t>(sz, (size_t)op.a);
        consume_cb(buf, n);
        break;
      }
      case OP_CONSUME_ALL:
        consume_cb(buf, buf.size());
        break;
      case OP_CONSUME_N_NOCB: {
        size_t n = std::min<size_t>(buf.size(), (size_t)op.a);
        ev(E_NOCB_BEGIN, (int64_t)n);
        buf.Consume(n);
        ev(E_NOCB_END);
        break;
      }
      case OP_CLEAR:
        ev(E_NOCB_BEGIN, -1);
        buf.Clear();
        ev(E_NOCB_END);
        break;
      case OP_PEEK: {
        ev(E_PEEK_BEGIN);
        auto range = buf.Peek();
        int seen   = 0;
        bool all   = range.ForEach([&](const AtomicUniquePtr<Elem> &ptr) {
          Elem *e = ptr.Get();
          if (!e)
            vsim::report("C11.peek_null", "Peek() exposed an empty slot");
          else
            ev(E_PEEK_ELEM, e->p, e->k);
          ++seen;
          return !(op.a == 1 && seen == 1);  // variant: the callback stops after one element
        });
        if (op.a == 1 && seen >= 1 && all)
          vsim::report("C11.foreach_ignores_stop",
                       "ForEach returned true although the callback asked to stop");
        if (op.a == 1 && seen > 1)
          vsim::report("C11.foreach_ignores_stop", "ForEach went on after the callback returned false");
        ev(E_PEEK_END);
        break;
      }
      case OP_SIZE: {
        size_t s = buf.size();
        ev(E_SIZE, (int64_t)s);
        bool em = buf.empty();
        ev(E_EMPTY, em, (int64_t)buf.size());
        break;
      }
      default:
        break;
    }
  }
}

void locker(SpinLockMutex &mu, const TaskProg &t)
{
  auto critical = [&](int yields) {
    if (++W->occupancy > 1)
      vsim::report("C11.spinlock_two_holders", "two tasks inside the critical section");
    W->held = true;
    if (yields == 9)
    {
      // a long hold: waiters go through the whole spin / yield / sleep escalation
      vsim::probe("spin.long_hold");
      std::this_thread::sleep_for(std::chrono::milliseconds(3));
    }
    else
      for (int i = 0; i < yields; ++i)
        vsim::yield_cs();
    W->held = false;
    --W->occupancy;
  };
  for (const Op &op : t.ops)
  {
    vsim::yield();
    InOp io;
    switch (op.kind)
    {
      case OP_LOCK:
        mu.lock();
        vsim::probe("spin.lock");
        critical((int)op.a);
        mu.unlock();
        break;
      case OP_TRYLOCK: {
        if (mu.try_lock())
        {
          // `held` is set after lock() returned and cleared before unlock() is
          // called, and no schedule point lies between try_lock's exchange and
          // this line: held==true here means the lock was not free.
          if (W->held)
            vsim::report("C11.trylock_on_held", "try_lock succeeded while the lock was held");
          vsim::probe("spin.trylock_ok");
          critical((int)op.a);
          mu.unlock();
        }
        else
          vsim::probe("spin.trylock_fail");
        break;
      }
      case OP_GUARD: {
        std::lock_guard<SpinLockMutex> g(mu);
        critical((int)op.a);
        break;
      }
      default:
        break;
    }
  }
}

void generate(const std::string &prop, Rng &wl, Rng &fl, Case &c)
{
  (void)prop;
  vsim::SimKnobs sk;
  sk.allow_cas_spurious = true;
  sk.allow_stall        = true;
  sk.faults_on          = fl.chance(0.7);
  if (wl.chance(0.7))
  {
    c.stratum   = sk.faults_on ? "circbuf.faults" : "circbuf.nofaults";
    bool big     = vsim::tier_scale() > 1 && wl.chance(0.5);
    int max_size = wl.chance(0.9) ? (int)wl.range(1, 3) : (int)wl.range(4, big ? 8 : 6);
    int nprod    = (int)wl.range(1, big ? 4 : 3);
    c.set("max_size", max_size);
    c.set("final_drain", wl.chance(0.8));
    for (int p = 0; p < nprod; ++p)
    {
      TaskProg t;
      t.role = R_PROD;
      int n  = (int)wl.range(1, wl.chance(0.8) ? 4 : (big ? 12 : 8));
      for (int k = 0; k < n; ++k)
      {
        Op op;
        op.kind = wl.chance(0.5) ? OP_ADD_L : OP_ADD_R;
        op.a    = k;
        t.ops.push_back(op);
      }
      c.tasks.push_back(t);
    }
    TaskProg cons;
    cons.role = R_CONS;
    int n     = (int)wl.range(1, big ? 16 : 10);
    for (int i = 0; i < n; ++i)
    {
      Op op;
      double r = wl.real();
      if (r < 0.35)
      {
        op.kind = OP_CONSUME_N;
        op.a    = wl.range(1, max_size);
      }
      else if (r < 0.60)
        op.kind = OP_CONSUME_ALL;
      else if (r < 0.68)
      {
        op.kind = OP_CONSUME_N_NOCB;
        op.a    = wl.range(1, max_size);
      }
      else if (r < 0.75)
        op.kind = OP_CLEAR;
      else if (r < 0.88)
      {
        op.kind = OP_PEEK;
        op.a    = wl.chance(0.3);
      }
      else
        op.kind = OP_SIZE;
      cons.ops.push_back(op);
    }
    c.tasks.push_back(cons);
    sk.typical_len = 150;
  }
  else
  {
    c.stratum = sk.faults_on ? "spinlock.faults" : "spinlock.nofaults";
    int nt    = (int)wl.range(2, 3);
    for (int i = 0; i < nt; ++i)
    {
      TaskProg t;
      t.role = R_LOCK;
      int n  = (int)wl.range(1, 4);
      for (int j = 0; j < n; ++j)
      {
        Op op;
        double r = wl.real();
        op.kind  = r < 0.5 ? OP_LOCK : (r < 0.85 ? OP_TRYLOCK : OP_GUARD);
        op.a     = wl.chance(0.15) ? 9 : wl.range(0, 3);
        t.ops.push_back(op);
      }
      c.tasks.push_back(t);
    }
    sk.typical_len = 300;
  }
  vsim::draw_run_config(fl, sk, c.rc);
  c.rc.budget1 = 30000;
  c.rc.budget2 = 60000;
}

void body(const Case &c)
{
  hist().clear();
  World w;
  W          = &w;
  w.max_size = c.knob("max_size", 1);
  bool is_lock = !c.tasks.empty() && c.tasks[0].role == R_LOCK;
  if (is_lock)
  {
    SpinLockMutex mu;
    run_tasks(c, [&](int, const TaskProg &t) { locker(mu, t); });
  }
  else
  {
    {
      Buf buf((size_t)w.max_size);
      run_tasks(c, [&](int i, const TaskProg &t) {
        if (t.role == R_PROD)
          producer(buf, i, t);
        else if (t.role == R_CONS)
          consumer(buf, t);
      });
      ev(E_FINAL_BEGIN, c.knob("final_drain", 1));
      if (c.knob("final_drain", 1))
      {
        size_t s = buf.size();
        ev(E_SIZE, (int64_t)s);
        consume_cb(buf, s);
        if (!buf.empty())
          vsim::report("C11.not_empty_after_drain", "buffer not empty after Consume(size())");
      }
    }
    ev(E_FINAL_END);
    if (w.live != 0)
      vsim::report("C11.leak", fmt("%lld element(s) alive after the buffer was destroyed",
                                   (long long)w.live));
  }
  W = nullptr;
}

// ------------------------------------------------------------------ oracle
// The position of an event in hist() is its real-time order (events are
// appended by whoever holds the baton); seq is only a label.
void check(const Case &c, const vsim::RunResult &)
{
  if (!c.tasks.empty() && c.tasks[0].role == R_LOCK)
    return;  // invariants were checked during the run; liveness by the scheduler
  const auto &H    = hist();
  int64_t max_size = c.knob("max_size", 1);
  struct AddRec
  {
    size_t inv = 0, ret = 0;
    int ok       = -1;
    int consumed = 0;
    bool destroyed_in_final = false;
  };
  std::map<std::pair<int, int>, AddRec> adds;
  for (size_t i = 0; i < H.size(); ++i)
  {
    const Ev &e = H[i];
    if (e.type == E_ADD_INV)
      adds[{(int)e.a, (int)e.b}].inv = i;
    else if (e.type == E_ADD_RET)
    {
      auto &a = adds[{(int)e.a, (int)e.b}];
      a.ret   = i;
      a.ok    = (int)e.c;
      if (!e.d)
        vsim::report("C11.ownership", fmt("Add(%d,%d) returned %d but the caller's pointer is in "
                                          "the wrong state",
                                          (int)e.a, (int)e.b, (int)e.c));
    }
  }
  // number of elements released by each no-callback Consume/Clear (for the early count)
  std::map<size_t, int64_t> nocb_count;
  {
    bool nb = false;
    size_t begin = 0;
    int task = -1;
    for (size_t i = 0; i < H.size(); ++i)
    {
      const Ev &e = H[i];
      if (e.type == E_NOCB_BEGIN)
      {
        nb = true;
        begin = i;
        task = e.task;
        nocb_count[begin] = 0;
      }
      else if (e.type == E_NOCB_END)
        nb = false;
      else if (e.type == E_DTOR && nb && e.task == task)
        nocb_count[begin]++;
    }
  }
  std::map<int, int> last_k;
  int64_t succ_ret       = 0;  // successful Adds that have returned
  int64_t consumed_early = 0;  // counted no later than the tail update (occupancy)
  std::vector<int64_t> consumed_late(H.size() + 1, 0);  // counted no earlier than the tail update
  bool in_nocb = false, in_final = false;
  int nocb_task         = -1;
  int64_t nocb_expected = 0, nocb_seen = 0;
  std::vector<std::pair<int, int>> peeked;
  bool peeking = false;
  size_t n_consumed = 0;
  int64_t late = 0;
  auto on_consumed = [&](int p, int k, size_t idx) {
    auto it = adds.find({p, k});
    if (it == adds.end() || it->second.inv > idx)
    {
      vsim::report("C11.consumed_unknown", fmt("consumed (%d,%d) that was never offered", p, k));
      return;
    }
    it->second.consumed++;
    ++n_consumed;
    if (it->second.consumed > 1)
      vsim::report("C11.duplicate", fmt("element (%d,%d) consumed twice", p, k));
    if (it->second.ok == 0)
      vsim::report("C11.failed_add_consumed",
                   fmt("element (%d,%d) consumed although its Add reported failure", p, k));
    auto lk = last_k.find(p);
    if (lk != last_k.end() && lk->second >= k)
      vsim::report("C11.order", fmt("producer %d: element %d consumed after %d", p, k, lk->second));
    last_k[p] = k;
    if (!peeked.empty())
    {
      if (peeked.front() != std::make_pair(p, k))
        vsim::report("C11.peek_mismatch",
                     fmt("Peek() showed (%d,%d) first but (%d,%d) was consumed first",
                         peeked.front().first, peeked.front().second, p, k));
      peeked.erase(peeked.begin());
    }
  };
  for (size_t i = 0; i < H.size(); ++i)
  {
    const Ev &e = H[i];
    switch (e.type)
    {
      case E_ADD_RET:
        if (e.c)
        {
          ++succ_ret;
          if (succ_ret - consumed_early > max_size)
            vsim::report("C11.occupancy", fmt("%lld successful Adds returned, %lld consumed: more "
                                              "than max_size=%lld queued",
                                              (long long)succ_ret, (long long)consumed_early,
                                              (long long)max_size));
        }
        break;
      case E_CONS_ENTRY:
        consumed_early += e.a;
        late += e.a;
        if (e.a > 0)
          vsim::probe("queue.consume_nonempty");
        break;
      case E_CONSUMED:
        on_consumed((int)e.a, (int)e.b, i);
        break;
      case E_NOCB_BEGIN:
        in_nocb       = true;
        nocb_task     = e.task;
        nocb_expected = e.a;
        nocb_seen     = 0;
        consumed_early += nocb_count[i];
        break;
      case E_NOCB_END:
        in_nocb = false;
        if (nocb_expected >= 0 && nocb_seen != nocb_expected)
          vsim::report("C11.consume_count", fmt("Consume(%lld) released %lld elements",
                                                (long long)nocb_expected, (long long)nocb_seen));
        break;
      case E_DTOR:
        if (in_nocb && e.task == nocb_task)
        {
          ++nocb_seen;
          ++late;
          on_consumed((int)e.a, (int)e.b, i);
        }
        else if (in_final && e.task == 0)
        {
          auto it = adds.find({(int)e.a, (int)e.b});
          if (it != adds.end() && it->second.ok == 1 && it->second.consumed == 0)
            it->second.destroyed_in_final = true;
        }
        break;
      case E_FINAL_BEGIN:
        in_final = true;
        break;
      case E_FINAL_END:
        in_final = false;
        break;
      case E_PEEK_BEGIN:
        peeked.clear();
        peeking = true;
        break;
      case E_PEEK_ELEM:
        if (peeking)
          peeked.emplace_back((int)e.a, (int)e.b);
        break;
      case E_PEEK_END:
        peeking = false;
        if (!peeked.empty())
          vsim::probe("queue.peek_nonempty");
        break;
      case E_SIZE:
        if (e.a > max_size)
          vsim::report("C11.size_over_capacity",
                       fmt("size() = %lld > max_size = %lld", (long long)e.a, (long long)max_size));
        break;
      default:
        break;
    }
    consumed_late[i + 1] = late;
  }
  // legitimacy of every failed Add: S = successful Adds that started before it
  // finished, K = elements consumed before it started; it may fail only if
  // S - K >= max_size.
  for (auto &kv : adds)
  {
    const AddRec &me = kv.second;
    if (me.ok != 0)
      continue;
    vsim::probe("queue.add_failed_full");
    int64_t S = 0;
    for (auto &o : adds)
      if (o.second.ok == 1 && o.second.inv < me.ret)
        ++S;
    int64_t K = consumed_late[me.inv];
    if (S - K < max_size)
      vsim::report("C11.illegitimate_failure",
                   fmt("Add(%d,%d) failed with only %lld started-successful minus %lld "
                       "consumed-before < max_size=%lld",
                       kv.first.first, kv.first.second, (long long)S, (long long)K,
                       (long long)max_size));
  }
  bool drained = c.knob("final_drain", 1) != 0;
  for (auto &kv : adds)
  {
    const AddRec &a = kv.second;
    if (a.ok == 1 && a.consumed == 0)
    {
      if (drained)
        vsim::report("C11.lost", fmt("element (%d,%d): Add succeeded but it was never consumed",
                                     kv.first.first, kv.first.second));
      else if (!a.destroyed_in_final)
        vsim::report("C11.lost", fmt("element (%d,%d): Add succeeded, never consumed and not "
                                     "released by the destructor",
                                     kv.first.first, kv.first.second));
    }
    if (a.ok == -1)
      vsim::report("C11.liveness.add_never_returned",
                   fmt("Add(%d,%d) never returned", kv.first.first, kv.first.second));
  }
  if (n_consumed > (size_t)max_size)
    vsim::probe("queue.wrap_around");
}

std::string describe_op(const Case &, int role, const Op &op)
{
  (void)role;
  switch (op.kind)
  {
    case OP_ADD_L:
      return fmt("Add(lvalue #%lld)", (long long)op.a);
    case OP_ADD_R:
      return fmt("Add(rvalue #%lld)", (long long)op.a);
    case OP_CONSUME_N:
      return fmt("Consume(min(size,%lld), cb)", (long long)op.a);
    case OP_CONSUME_ALL:
      return "Consume(size(), cb)";
    case OP_CONSUME_N_NOCB:
      return fmt("Consume(min(size,%lld))", (long long)op.a);
    case OP_CLEAR:
      return "Clear()";
    case OP_PEEK:
      return op.a ? "Peek() stopping after one element" : "Peek()";
    case OP_SIZE:
      return "size()/empty()";
    case OP_LOCK:
      return op.a == 9 ? std::string("lock(); hold for 3 ms (simulated); unlock()")
                       : fmt("lock(); %lld yields; unlock()", (long long)op.a);
    case OP_TRYLOCK:
      return fmt("try_lock() ? %lld yields; unlock()", (long long)op.a);
    case OP_GUARD:
      return fmt("lock_guard; %lld yields", (long long)op.a);
  }
  return "?";
}

std::string describe_fault(const Case &, const Fault &)
{
  return "";
}

const char *const kProps[] = {"C11", nullptr};
const std::pair<const char *, int64_t> kShrink[] = {{"max_size", 1}, {nullptr, 0}};
const char *const kReal[] = {"sdk/common/circular_buffer.h (CircularBuffer<T>)",
                             "sdk/common/atomic_unique_ptr.h", "sdk/common/circular_buffer_range.h",
                             "api/common/spin_lock_mutex.h", nullptr};
const char *const kStub[] = {"element type T (instance counted, tagged producer/sequence)",
                             "std::atomic / std::this_thread (scheduler shims)", nullptr};
}  // namespace

namespace vsim
{
const EngineDesc g_engine = {
    "queue",
    kProps,
    generate,
    body,
    check,
    describe_op,
    describe_fault,
    kShrink,
    kReal,
    kStub,
    "one run = one generated program per task (1-3 producers x 1-8 Add calls of both overloads + "
    "one consumer with 1-10 Consume/Clear/Peek/size ops on a buffer of capacity 1-6, or 2-3 tasks "
    "x 1-4 lock/try_lock/lock_guard ops on one SpinLockMutex) executed under a seeded schedule "
    "(rw/pct/burst/delay) with every atomic operation a schedule point; distinct = distinct "
    "(workload hash, trace hash over (task, op kind, object) per point); non-trivial = >= 2 tasks "
    "and >= 1 context switch while a task was inside an API operation"};
}
