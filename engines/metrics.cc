// metrics engine - C06, C07, C08: synchronous instruments recorded by tasks
// racing collector tasks of 1-3 readers of mixed temporality, with views,
// attribute filters and cardinality limits. Counter measurement k of an
// instrument adds +-4^k, so every reported sum decodes in base 4 into WHICH
// measurements it contains and how often: exactly-once per reader is decidable
// even when collections race with recordings.
#include "harness.h"

#include "opentelemetry/context/context.h"
#include "opentelemetry/sdk/metrics/aggregation/aggregation_config.h"
#include "opentelemetry/sdk/metrics/export/periodic_exporting_metric_reader.h"
#include "opentelemetry/sdk/metrics/export/periodic_exporting_metric_reader_options.h"
#include "opentelemetry/sdk/metrics/meter_context.h"
#include "opentelemetry/sdk/metrics/meter_provider.h"
#include "opentelemetry/sdk/metrics/metric_reader.h"
#include "opentelemetry/sdk/metrics/push_metric_exporter.h"
#include "opentelemetry/sdk/metrics/state/metric_collector.h"
#include "opentelemetry/sdk/metrics/state/sync_metric_storage.h"
#include "opentelemetry/sdk/metrics/view/attributes_processor.h"
#include "opentelemetry/sdk/metrics/view/instrument_selector.h"
#include "opentelemetry/sdk/metrics/view/meter_selector.h"
#include "opentelemetry/sdk/metrics/view/view.h"
#include "opentelemetry/sdk/metrics/view/view_registry.h"

using namespace hz;
namespace nostd     = opentelemetry::nostd;
namespace sdkmet    = opentelemetry::sdk::metrics;
namespace sdkcommon = opentelemetry::sdk::common;
namespace metrics_api = opentelemetry::metrics;
namespace common    = opentelemetry::common;
using opentelemetry::sdk::resource::Resource;

namespace
{
enum OpKind
{
  OP_ADD = 1,     // a=instrument b=attribute set id c=digit/value index d=key order seed
  OP_COLLECT,     // a=reader
  OP_NEW_HANDLE,  // a=instrument: obtain another handle for the same instrument
  OP_SLEEP        // a=ns
};
enum Role
{
  R_RECORDER = 0,
  R_COLLECTOR = 1
};
enum EvType
{
  E_ADD_INV = 1,  // a=instrument b=digit c=handle index
  E_ADD_RET,
  E_COL_INV,      // a=reader b=collection number
  E_COL_RET,
  E_HANDLE        // a=instrument b=new handle index
};
// instrument kinds
enum IKind
{
  I_COUNTER_LONG = 0,
  I_COUNTER_DOUBLE,
  I_UPDOWN_LONG,
  I_UPDOWN_DOUBLE,
  I_HIST_LONG,
  I_HIST_DOUBLE
};
const int kMaxDigits = 24;  // 4^24 = 2^48: exact in a double
const int kNKeys      = 5;
// the last key is a prefix of all the others (allow-lists must compare whole keys)
const char *kKeys[kNKeys] = {"k0", "k1", "k2", "k3", "k"};
const int kAllKeys    = 31;
const std::string kOverflowKey = "otel.metrics.overflow";

bool is_hist(int k)
{
  return k == I_HIST_LONG || k == I_HIST_DOUBLE;
}
bool is_double(int k)
{
  return k == I_COUNTER_DOUBLE || k == I_UPDOWN_DOUBLE || k == I_HIST_DOUBLE;
}

// attribute set id: base-4 digit per key, 0 = absent, 1..3 = value
typedef std::map<std::string, std::string> AttrMap;
// knob hash_twins: some values are replaced by a value of ANOTHER type whose std::hash
// equals that of an existing value of the same key (bool true ~ int64 1 ~ uint64 1,
// one-element string array ~ the string, int32 array ~ int64 array with the same elements):
// the attribute sets differ as key-to-value maps but their hashes collide, so only the
// equality comparison keeps their series apart.
int g_hash_twins = 0;
// [key][value digit] -> canonical text of the replacement (nullptr: the ordinary value).
// k0: int64 1 / uint64 1 / bool true and k2: false / true / uint32 1 collide three- and two-way;
// the others also bring in the remaining value types (uint8, double and bool arrays).
const char *const kTwinCanon[kNKeys][4] = {
    {nullptr, nullptr, "u64:1", "b:1"},
    {nullptr, nullptr, "vu8:[118,49,]", "vs:[v1,]"},
    {nullptr, nullptr, nullptr, "u32:1"},
    {nullptr, nullptr, nullptr, "vi32:[2,3,]"},
    {nullptr, nullptr, "vd:[1.500000,2.500000,]", "vb:[1,0,]"}};
AttrMap attrs_of(int64_t id, int mask)
{
  AttrMap m;
  for (int k = 0; k < kNKeys; ++k)
  {
    int v = (int)((id >> (2 * k)) & 3);
    if (!v || !((mask >> k) & 1))
      continue;
    if (g_hash_twins && kTwinCanon[k][v])
    {
      m[kKeys[k]] = kTwinCanon[k][v];
      continue;
    }
    // k0: int64; k1: strings of equal length; k2: bool; k3: double and two int64 arrays that
    // share their first element; k: two string arrays that share their first element, and the
    // empty string
    m[kKeys[k]] = k == 0   ? "i64:" + std::to_string(v)
                  : k == 1 ? "s:v" + std::to_string(v)
                  : k == 2 ? std::string("b:") + (v > 1 ? "1" : "0")
                  : k == 3 ? (v == 1   ? std::string("d:1.500000")
                              : v == 2 ? std::string("vi64:[2,3,]")
                                       : std::string("vi64:[2,4,]"))
                           : (v == 1   ? std::string("vs:[a,b3,]")
                              : v == 2 ? std::string("vs:[a,b4,]")
                                       : std::string("s:"));
  }
  return m;
}
std::string canon_attrs(const AttrMap &m)
{
  std::string s;
  for (auto &kv : m)
    s += kv.first + "=" + kv.second + ";";
  return s;
}
struct CanonOwned
{
  std::string operator()(bool v) const { return std::string("b:") + (v ? "1" : "0"); }
  std::string operator()(int32_t v) const { return "i32:" + std::to_string(v); }
  std::string operator()(uint32_t v) const { return "u32:" + std::to_string(v); }
  std::string operator()(int64_t v) const { return "i64:" + std::to_string(v); }
  std::string operator()(uint64_t v) const { return "u64:" + std::to_string(v); }
  std::string operator()(double v) const { return "d:" + std::to_string(v); }
  std::string operator()(const std::string &v) const { return "s:" + v; }
  std::string operator()(const std::vector<uint8_t> &v) const
  {
    std::string o = "vu8:[";
    for (auto e : v)
      o += std::to_string((int)e) + ",";
    return o + "]";
  }
  std::string operator()(const std::vector<double> &v) const
  {
    std::string o = "vd:[";
    for (auto e : v)
      o += std::to_string(e) + ",";
    return o + "]";
  }
  std::string operator()(const std::vector<bool> &v) const
  {
    std::string o = "vb:[";
    for (bool e : v)
      o += std::string(e ? "1" : "0") + ",";
    return o + "]";
  }
  std::string operator()(const std::vector<int32_t> &v) const
  {
    std::string o = "vi32:[";
    for (auto e : v)
      o += std::to_string(e) + ",";
    return o + "]";
  }
  std::string operator()(const std::vector<int64_t> &v) const
  {
    std::string o = "vi64:[";
    for (auto e : v)
      o += std::to_string(e) + ",";
    return o + "]";
  }
  std::string operator()(const std::vector<std::string> &v) const
  {
    std::string o = "vs:[";
    for (auto &e : v)
      o += e + ",";
    return o + "]";
  }
  template <class T>
  std::string operator()(const std::vector<T> &) const
  {
    return "vec";
  }
};

// histogram test values: index -> value (non negative)
double hist_value(int64_t idx, bool wild, const std::vector<double> &bounds)
{
  static const double base[] = {0, 1, 2.5, 5, 7.25, 10, 25, 49.5, 50, 100.125, 250, 1000, 9999.5,
                                10000, 10001, 123456};
  if (!wild)
    return base[idx % 16];
  // values equal to a boundary, one ulp around it, denormal, huge
  int sel = (int)(idx % 8);
  if (!bounds.empty() && sel < 6)
  {
    double b = bounds[(idx / 8) % bounds.size()];
    if (sel < 2)
      return b;
    if (sel < 4)
      return std::nextafter(b, 1e308);
    return b > 0 ? std::nextafter(b, 0.0) : 0.0;
  }
  return sel == 6 ? 5e-324 : (sel == 7 ? 1e300 : 0.0);
}

std::vector<double> bounds_preset(int p)
{
  switch (p)
  {
    case 1:
      return {};
    case 2:
      return {10};
    case 3:
      return {0.5, 1.5, 2.5, 7.25};
    case 4:
      return {1e-300, 1, 1e150, 1e300};
    case 5:
      return {0, 5, 10, 25, 50, 75, 100, 250, 500, 1000};
    case 6:
      return {0, 1, 2, 3, 4, 5, 6, 7, 8, 9, 10, 20, 30, 40, 50, 100, 1000, 5000, 20000};  // > 15
    default:
      return {0, 5, 10, 25, 50, 75, 100, 250, 500, 750, 1000, 2500, 5000, 7500, 10000};  // SDK default
  }
}

struct HistModel
{
  std::vector<uint64_t> counts;
  uint64_t count = 0;
  long double sum = 0;
  double min = 0, max = 0;
  bool any = false;
  void init(size_t nb) { counts.assign(nb + 1, 0); }
  void add(double v, const std::vector<double> &b)
  {
    size_t i = 0;
    while (i < b.size() && !(v <= b[i]))
      ++i;  // bucket i: b[i-1] < v <= b[i]
    counts[i]++;
    count++;
    sum += v;
    if (!any || v < min)
      min = v;
    if (!any || v > max)
      max = v;
    any = true;
  }
};

struct Point
{
  std::string attrs;  // canonical, sorted
  bool overflow = false;
  bool is_sum = false, is_hist = false, monotonic = false;
  long double sum = 0;  // Sum value or histogram sum
  std::vector<uint64_t> counts;
  std::vector<double> bounds;
  uint64_t count = 0;
  double min = 0, max = 0;
  bool minmax = true;
};
struct Report
{
  std::string stream;
  int temporality = 0;  // 1 delta 2 cumulative (sdk enum values)
  int64_t start_ts = 0, end_ts = 0;
  std::vector<Point> points;
};
struct Collection
{
  int reader = 0, number = 0;
  size_t inv = 0, ret = 0;
  std::vector<Report> reports;
};

struct World;
World *W = nullptr;

void capture(const sdkmet::ResourceMetrics &rm, Collection &c)
{
  hz::HarnessCode hc_;
  for (auto &sm : rm.scope_metric_data_)
    for (auto &md : sm.metric_data_)
    {
      Report r;
      r.stream      = md.instrument_descriptor.name_;
      r.temporality = (int)md.aggregation_temporality;
      r.start_ts    = md.start_ts.time_since_epoch().count();
      r.end_ts      = md.end_ts.time_since_epoch().count();
      for (auto &pd : md.point_data_attr_)
      {
        Point p;
        AttrMap am;
        for (auto &kv : pd.attributes)
          am[kv.first] = nostd::visit(CanonOwned(), kv.second);
        p.attrs    = canon_attrs(am);
        p.overflow = am.count(kOverflowKey) != 0;
        if (nostd::holds_alternative<sdkmet::SumPointData>(pd.point_data))
        {
          auto &s  = nostd::get<sdkmet::SumPointData>(pd.point_data);
          p.is_sum = true;
          p.monotonic = s.is_monotonic_;
          p.sum    = nostd::holds_alternative<int64_t>(s.value_)
                         ? (long double)nostd::get<int64_t>(s.value_)
                         : (long double)nostd::get<double>(s.value_);
        }
        else if (nostd::holds_alternative<sdkmet::HistogramPointData>(pd.point_data))
        {
          auto &h   = nostd::get<sdkmet::HistogramPointData>(pd.point_data);
          p.is_hist = true;
          p.counts  = h.counts_;
          p.bounds  = h.boundaries_;
          p.count   = h.count_;
          p.minmax  = h.record_min_max_;
          auto num  = [](const sdkmet::ValueType &v) {
            return nostd::holds_alternative<int64_t>(v) ? (double)nostd::get<int64_t>(v)
                                                         : nostd::get<double>(v);
          };
          p.sum = nostd::holds_alternative<int64_t>(h.sum_)
                      ? (long double)nostd::get<int64_t>(h.sum_)
                      : (long double)nostd::get<double>(h.sum_);
          p.min = num(h.min_);
          p.max = num(h.max_);
        }
        r.points.push_back(p);
      }
      c.reports.push_back(r);
    }
}

class PullReader final : public sdkmet::MetricReader
{
public:
  explicit PullReader(int temporality, bool split = false) : temporality_(temporality), split_(split) {}
  sdkmet::AggregationTemporality GetAggregationTemporality(
      sdkmet::InstrumentType type) const noexcept override
  {
    hz::HarnessCode hc_;
    int t = temporality_;
    if (split_ && type == sdkmet::InstrumentType::kUpDownCounter)
      t = !t;
    return t ? sdkmet::AggregationTemporality::kCumulative
             : sdkmet::AggregationTemporality::kDelta;
  }

private:
  bool OnForceFlush(std::chrono::microseconds) noexcept override { hz::HarnessCode hc_; return true; }
  bool OnShutDown(std::chrono::microseconds) noexcept override { hz::HarnessCode hc_; return true; }
  int temporality_;
  bool split_ = false;
};

// Stub exporter of the real PeriodicExportingMetricReader stratum: every Export is one
// collection of reader 0. The collection behind export k began after export k-1 was entered
// (cycles are sequential on the reader's worker), which gives a sound window.
class CaptureMetricExporter final : public sdkmet::PushMetricExporter
{
public:
  explicit CaptureMetricExporter(int temporality) : temporality_(temporality) {}
  sdkcommon::ExportResult Export(const sdkmet::ResourceMetrics &rm) noexcept override;
  sdkmet::AggregationTemporality GetAggregationTemporality(
      sdkmet::InstrumentType) const noexcept override
  {
    hz::HarnessCode hc_;
    return temporality_ ? sdkmet::AggregationTemporality::kCumulative
                        : sdkmet::AggregationTemporality::kDelta;
  }
  bool ForceFlush(std::chrono::microseconds) noexcept override { hz::HarnessCode hc_; return true; }
  bool Shutdown(std::chrono::microseconds) noexcept override { hz::HarnessCode hc_; return true; }

private:
  int temporality_;
};

struct Handle
{
  nostd::unique_ptr<metrics_api::Counter<uint64_t>> cl;
  nostd::unique_ptr<metrics_api::Counter<double>> cd;
  nostd::unique_ptr<metrics_api::UpDownCounter<int64_t>> ul;
  nostd::unique_ptr<metrics_api::UpDownCounter<double>> ud;
  nostd::unique_ptr<metrics_api::Histogram<uint64_t>> hl;
  nostd::unique_ptr<metrics_api::Histogram<double>> hd;
};

struct Meas
{
  int instr = 0, handle = 0;
  int64_t digit = 0, attr_id = 0;
  double hvalue = 0;
  size_t inv = 0, ret = 0;
};

struct World
{
  const Case *c = nullptr;
  std::shared_ptr<sdkmet::MeterContext> ctx;
  std::unique_ptr<sdkmet::MeterProvider> prov;
  nostd::shared_ptr<metrics_api::Meter> meter, meter2;  // the last instrument may live on a second meter
  std::vector<std::shared_ptr<sdkmet::MetricReader>> readers;
  // deque: a recorder keeps a reference to its handle across the API call while another task
  // may add a handle (references into a deque survive push_back)
  std::vector<std::deque<Handle>> handles;  // [instrument][handle]
  std::vector<Collection> collections;
  std::vector<int> col_count;
  std::vector<Meas> meas;
  int64_t sdk_start = 0;
  // direct-storage stratum (C08 limits)
  std::unique_ptr<sdkmet::SyncMetricStorage> storage;
  std::vector<std::shared_ptr<sdkmet::CollectorHandle>> direct_collectors;
  std::unique_ptr<sdkmet::AttributesProcessor> direct_proc;
  size_t last_export_at = 0;  // periodic stratum
  bool final_ok         = true;  // periodic stratum: the final ForceFlush reported success
  // collections of different readers are serialised by the SDK (MeterContext::meter_lock_ is
  // held across Meter::Collect); the direct-storage stratum reproduces that
  std::mutex collect_m;
};

sdkcommon::ExportResult CaptureMetricExporter::Export(const sdkmet::ResourceMetrics &rm) noexcept
{
  hz::HarnessCode hc_;
  World &w = *W;
  Collection c;
  c.reader = 0;
  c.number = w.col_count[0]++;
  c.inv    = w.last_export_at;
  ev(E_COL_RET, 0, c.number);
  c.ret            = hist().size() - 1;
  w.last_export_at = c.ret;
  capture(rm, c);
  w.collections.push_back(c);
  vsim::yield();
  return sdkcommon::ExportResult::kSuccess;
}

std::string instr_name(int i)
{
  return fmt("instr%d", i);
}

void make_handle(World &w, int i)
{
  int kind = (int)w.c->knob(fmt("itype%d", i).c_str(), 0);
  Handle h;
  std::string n = instr_name(i);
  // instruments are spread over two meters when the knob says so (every meter must be collected)
  auto &meter = (w.c->knob("second_meter", 0) && i == (int)w.c->knob("ninstr", 1) - 1) ? w.meter2 : w.meter;
  switch (kind)
  {
    case I_COUNTER_LONG:
      h.cl = meter->CreateUInt64Counter(n);
      break;
    case I_COUNTER_DOUBLE:
      h.cd = meter->CreateDoubleCounter(n);
      break;
    case I_UPDOWN_LONG:
      h.ul = meter->CreateInt64UpDownCounter(n);
      break;
    case I_UPDOWN_DOUBLE:
      h.ud = meter->CreateDoubleUpDownCounter(n);
      break;
    case I_HIST_LONG:
      h.hl = meter->CreateUInt64Histogram(n);
      break;
    default:
      h.hd = meter->CreateDoubleHistogram(n);
  }
  w.handles[i].push_back(std::move(h));
}

// The attributes of one call: keys in a per-call order, with overwritten duplicates first.
struct CallAttrs final : common::KeyValueIterable
{
  std::vector<std::pair<nostd::string_view, common::AttributeValue>> items;
  std::vector<std::string> strs;
  uint64_t tail_seed = 0;
  // Keys and string values are handed over as views that are NOT NUL-terminated at their
  // end: slices of larger buffers whose tail differs from call to call (a copy that runs to
  // the next NUL would split equal sets into different series).
  nostd::string_view slice(const std::string &text)
  {
    tail_seed = tail_seed * 6364136223846793005ull + 1442695040888963407ull;
    std::string buf = text;
    for (int i = 0, n = 1 + (int)((tail_seed >> 40) % 3); i < n; ++i)
      buf += (char)('A' + (tail_seed >> (8 * i + 33)) % 26);
    strs.push_back(buf);
    return nostd::string_view(strs.back().data(), text.size());
  }
  CallAttrs(int64_t id, uint64_t order_seed)
  {
    strs.reserve(32);
    tail_seed = order_seed ^ 0x9e3779b97f4a7c15ull;
    std::vector<int> keys;
    for (int k = 0; k < kNKeys; ++k)
      if ((id >> (2 * k)) & 3)
        keys.push_back(k);
    // permutation
    for (size_t i = keys.size(); i > 1; --i)
    {
      order_seed = order_seed * 6364136223846793005ull + 1442695040888963407ull;
      std::swap(keys[i - 1], keys[(order_seed >> 33) % i]);
    }
    auto value = [&](int k, int v) -> common::AttributeValue {
      if (g_hash_twins && kTwinCanon[k][v])
      {
        static const char rawv1[]              = "v1ZZ";
        static const nostd::string_view one[1] = {nostd::string_view(rawv1, 2)};
        static const int32_t arr32[2]          = {2, 3};
        static const uint8_t bytes[2]          = {118, 49};
        static const double dbl[2]             = {1.5, 2.5};
        static const bool bools[2]             = {true, false};
        switch (k * 4 + v)
        {
          case 0 * 4 + 2:
            return common::AttributeValue((uint64_t)1);
          case 0 * 4 + 3:
            return common::AttributeValue(true);
          case 1 * 4 + 2:
            return common::AttributeValue(nostd::span<const uint8_t>(bytes, 2));
          case 1 * 4 + 3:
            return common::AttributeValue(nostd::span<const nostd::string_view>(one, 1));
          case 2 * 4 + 3:
            return common::AttributeValue((uint32_t)1);
          case 3 * 4 + 3:
            return common::AttributeValue(nostd::span<const int32_t>(arr32, 2));
          case 4 * 4 + 2:
            return common::AttributeValue(nostd::span<const double>(dbl, 2));
          default:
            return common::AttributeValue(nostd::span<const bool>(bools, 2));
        }
      }
      if (k == 0)
        return common::AttributeValue((int64_t)v);
      if (k == 1)
      {
        return common::AttributeValue(slice("v" + std::to_string(v)));
      }
      if (k == 2)
        return common::AttributeValue((bool)(v > 1));
      if (k == 3)
      {
        if (v == 1)
          return common::AttributeValue(1.5);
        static const int64_t arr2[2] = {2, 3}, arr3[2] = {2, 4};
        return common::AttributeValue(nostd::span<const int64_t>(v == 2 ? arr2 : arr3, 2));
      }
      if (v == 3)
        return common::AttributeValue(slice(""));
      static const char raw[] = "ab3b4";  // array elements are slices too
      static const nostd::string_view s1[2] = {nostd::string_view(raw, 1), nostd::string_view(raw + 1, 2)},
                                      s2[2] = {nostd::string_view(raw, 1), nostd::string_view(raw + 3, 2)};
      return common::AttributeValue(nostd::span<const nostd::string_view>(v == 1 ? s1 : s2, 2));
    };
    // a duplicate of the first key with another value comes first: the later one must win
    if (!keys.empty() && ((order_seed >> 20) & 1))
    {
      int k = keys[0];
      int v = (int)((id >> (2 * k)) & 3);
      items.emplace_back(slice(kKeys[k]), value(k, v % 3 + 1));
    }
    for (int k : keys)
      items.emplace_back(slice(kKeys[k]), value(k, (int)((id >> (2 * k)) & 3)));
  }
  bool ForEachKeyValue(
      nostd::function_ref<bool(nostd::string_view, common::AttributeValue)> cb) const noexcept override
  {
    for (auto &it : items)
      if (!cb(it.first, it.second))
        return false;
    return true;
  }
  size_t size() const noexcept override { return items.size(); }
};

// "equal sets always hash equally", whatever route built the key: the series key type has five
// constructors; the recording path uses one of them. The same attribute list goes through all
// of them (sizes 1-3: an initializer list cannot be built at run time) and the results must
// be equal with equal hashes.
void check_key_routes(const CallAttrs &attrs)
{
  using FOAM = sdkmet::FilteredOrderedAttributeMap;
  const auto &it = attrs.items;
  if (it.empty() || it.size() > 3)
    return;
  sdkmet::DefaultAttributesProcessor dflt;
  FOAM a(attrs), b(attrs, &dflt);
  FOAM c = it.size() == 1   ? FOAM({it[0]})
           : it.size() == 2 ? FOAM({it[0], it[1]})
                            : FOAM({it[0], it[1], it[2]});
  FOAM d = it.size() == 1   ? FOAM({it[0]}, &dflt)
           : it.size() == 2 ? FOAM({it[0], it[1]}, &dflt)
                            : FOAM({it[0], it[1], it[2]}, &dflt);
  FOAM e = it.size() == 1   ? FOAM({it[0]}, nullptr)
           : it.size() == 2 ? FOAM({it[0], it[1]}, nullptr)
                            : FOAM({it[0], it[1], it[2]}, nullptr);
  const FOAM *all[] = {&b, &c, &d, &e};
  for (const FOAM *x : all)
    if (!(a == *x) || a.GetHash() != x->GetHash() ||
        x->GetHash() != sdkcommon::GetHashForAttributeMap(*x))
    {
      vsim::report("C08.equal_sets_hash_differently",
                   "the same attribute list built through two constructors of the series key "
                   "gives unequal keys or different hashes");
      return;
    }
  vsim::probe("metrics.key_routes_compared");
}

void do_add(World &w, int task, const Op &op)
{
  (void)task;
  int i    = (int)op.a;
  int kind = (int)w.c->knob(fmt("itype%d", i).c_str(), 0);
  bool direct = w.storage != nullptr;
  if (!direct && w.handles[i].empty())
    return;  // (late instrument: nobody has created it yet)
  int hidx = direct ? 0 : (int)(op.d % w.handles[i].size());
  CallAttrs attrs(op.b, (uint64_t)op.d);
  Meas m;
  m.instr   = i;
  m.handle  = hidx;
  m.digit   = op.c;
  m.attr_id = op.b;
  int64_t unit = (int64_t)1 << (2 * op.c);
  if (w.c->prop == "C08" && ((uint64_t)op.d >> 44) % 4 == 0)
    check_key_routes(attrs);
  ev(E_ADD_INV, i, op.c, hidx);
  m.inv = hist().size() - 1;
  {
    InOp io;
    if (direct)
    {
      // up-down kinds record negative values, as through the instrument API below
      int64_t sv = (kind == I_UPDOWN_LONG || kind == I_UPDOWN_DOUBLE) ? -unit : unit;
      if (is_double(kind))
        w.storage->RecordDouble((double)sv, attrs, opentelemetry::context::Context{});
      else
        w.storage->RecordLong(sv, attrs, opentelemetry::context::Context{});
    }
    else
    {
      Handle &h = w.handles[i][hidx];
      bool noattr = op.b == 0;
      // every overload: (value), (value, context), (value, attributes), (value, attributes, context)
      bool with_ctx = ((uint64_t)op.d >> 40) & 1;
      opentelemetry::context::Context cx;
      auto add = [&](auto &inst, auto value) {
        if (noattr)
          with_ctx ? inst->Add(value, cx) : inst->Add(value);
        else
          with_ctx ? inst->Add(value, attrs, cx) : inst->Add(value, attrs);
      };
      switch (kind)
      {
        case I_COUNTER_LONG:
          add(h.cl, (uint64_t)unit);
          break;
        case I_COUNTER_DOUBLE:
          add(h.cd, (double)unit);
          break;
        case I_UPDOWN_LONG:
          add(h.ul, (int64_t)-unit);
          break;
        case I_UPDOWN_DOUBLE:
          add(h.ud, -(double)unit);
          break;
        case I_HIST_LONG: {
          m.hvalue = std::floor(
              hist_value(op.c, false, std::vector<double>()));  // integer instrument
          noattr ? h.hl->Record((uint64_t)m.hvalue, opentelemetry::context::Context{})
                 : h.hl->Record((uint64_t)m.hvalue, attrs, opentelemetry::context::Context{});
          break;
        }
        default: {
          int vw   = (int)w.c->knob("wild_values", 0);
          m.hvalue = hist_value(op.c, vw != 0,
                                bounds_preset((int)w.c->knob(fmt("bounds%d", i).c_str(), 0)));
          noattr ? h.hd->Record(m.hvalue, opentelemetry::context::Context{})
                 : h.hd->Record(m.hvalue, attrs, opentelemetry::context::Context{});
        }
      }
    }
  }
  ev(E_ADD_RET, i, op.c, hidx);
  m.ret = hist().size() - 1;
  w.meas.push_back(m);
}

void do_collect(World &w, int r, bool final_collection = false)
{
  if (r < 0 || r >= (int)w.col_count.size())
    return;  // (a minimised case may have fewer readers than its operations name)
  if (r == 0 && w.c->knob("periodic", 0))
  {
    // reader 0 is a real periodic reader: a collection cycle is forced through ForceFlush
    // (a ForceFlush may legitimately time out: PeriodicExportingMetricReader notifies its
    // worker without holding the worker's mutex, so a wake-up can be lost and the flush is then
    // served only after a full export interval; the final collection therefore waits without
    // limit and the oracle only relies on it when it reported success)
    InOp io;
    bool ok = w.readers[0]->ForceFlush(final_collection ? std::chrono::microseconds::max()
                                                        : std::chrono::microseconds(60000000));
    if (final_collection)
      w.final_ok = ok;
    if (!ok)
      vsim::probe("metrics.periodic_flush_timed_out");
    return;
  }
  Collection c;
  c.reader = r;
  c.number = w.col_count[r]++;
  ev(E_COL_INV, r, c.number);
  c.inv = hist().size() - 1;
  {
    InOp io;
    if (w.storage)
    {
      // direct storage: one stream, the stub collector handles are the readers
      std::lock_guard<std::mutex> serialise(w.collect_m);
      nostd::span<std::shared_ptr<sdkmet::CollectorHandle>> cols(w.direct_collectors.data(),
                                                                 w.direct_collectors.size());
      auto now = std::chrono::system_clock::now();
      w.storage->Collect(w.direct_collectors[r].get(), cols,
                         common::SystemTimestamp(std::chrono::nanoseconds(w.sdk_start)),
                         common::SystemTimestamp(now), [&](sdkmet::MetricData md) {
                           sdkmet::ResourceMetrics rm;
                           sdkmet::ScopeMetrics sm;
                           sm.metric_data_.push_back(md);
                           rm.scope_metric_data_.push_back(sm);
                           capture(rm, c);
                           return true;
                         });
    }
    else
      w.readers[r]->Collect([&](sdkmet::ResourceMetrics &rm) {
        capture(rm, c);
        return true;
      });
  }
  ev(E_COL_RET, r, c.number);
  c.ret = hist().size() - 1;
  w.collections.push_back(c);
}

class DirectCollector final : public sdkmet::CollectorHandle
{
public:
  explicit DirectCollector(int t) : t_(t) {}
  sdkmet::AggregationTemporality GetAggregationTemporality(sdkmet::InstrumentType) noexcept override
  {
    hz::HarnessCode hc_;
    return t_ ? sdkmet::AggregationTemporality::kCumulative : sdkmet::AggregationTemporality::kDelta;
  }

private:
  int t_;
};

void run_program(World &w, int idx, const TaskProg &t)
{
  for (const Op &op : t.ops)
  {
    vsim::yield();
    switch (op.kind)
    {
      case OP_ADD:
        do_add(w, idx, op);
        break;
      case OP_COLLECT:
        do_collect(w, (int)op.a);
        break;
      case OP_NEW_HANDLE:
        if (!w.storage)
        {
          make_handle(w, (int)op.a);
          ev(E_HANDLE, op.a, (int64_t)w.handles[op.a].size() - 1);
        }
        break;
      case OP_SLEEP:
        std::this_thread::sleep_for(std::chrono::nanoseconds(op.a));
        break;
    }
  }
}

World g_keep;

void body(const Case &c)
{
  hist().clear();
  g_hash_twins = (int)c.knob("hash_twins", 0);
  World w;
  W           = &w;
  w.c         = &c;
  int ninstr  = (int)c.knob("ninstr", 1);
  int nread   = (int)c.knob("nreaders", 1);
  int nviews  = (int)c.knob("nviews", 0);
  bool direct = c.knob("direct_limit", 0) != 0;
  w.col_count.assign(nread, 0);
  w.handles.resize(ninstr);
  if (direct)
  {
    int kind = (int)c.knob("itype0", 0);
    sdkmet::InstrumentDescriptor d{instr_name(0), "", "",
                                   (kind == I_UPDOWN_LONG || kind == I_UPDOWN_DOUBLE)
                                       ? sdkmet::InstrumentType::kUpDownCounter
                                       : sdkmet::InstrumentType::kCounter,
                                   is_double(kind) ? sdkmet::InstrumentValueType::kDouble
                                                   : sdkmet::InstrumentValueType::kLong};
    int mask = (int)c.knob("filter0", kAllKeys);
    if (mask == kAllKeys)
      w.direct_proc.reset(new sdkmet::DefaultAttributesProcessor);
    else
    {
      std::unordered_map<std::string, bool> allow;
      for (int k = 0; k < kNKeys; ++k)
        if ((mask >> k) & 1)
          allow[kKeys[k]] = true;
      w.direct_proc.reset(new sdkmet::FilteringAttributesProcessor(allow));
    }
    w.storage.reset(new sdkmet::SyncMetricStorage(d, sdkmet::AggregationType::kSum,
                                                  w.direct_proc.get(), nullptr,
                                                  (size_t)c.knob("direct_limit", 2000)));
    for (int r = 0; r < nread; ++r)
      w.direct_collectors.emplace_back(new DirectCollector((int)c.knob(fmt("temp%d", r).c_str(), 0)));
    w.sdk_start = std::chrono::system_clock::now().time_since_epoch().count();
  }
  else
  {
    w.prov.reset(new sdkmet::MeterProvider());
    for (int v = 0; v < nviews; ++v)
    {
      int vi   = (int)c.knob(fmt("view%d_instr", v).c_str(), 0);
      int kind = (int)c.knob(fmt("itype%d", vi).c_str(), 0);
      auto itype = is_hist(kind) ? sdkmet::InstrumentType::kHistogram
                   : (kind == I_UPDOWN_LONG || kind == I_UPDOWN_DOUBLE)
                       ? sdkmet::InstrumentType::kUpDownCounter
                       : sdkmet::InstrumentType::kCounter;
      std::unique_ptr<sdkmet::InstrumentSelector> is(
          new sdkmet::InstrumentSelector(itype, instr_name(vi), ""));
      std::unique_ptr<sdkmet::MeterSelector> ms(new sdkmet::MeterSelector("m", "", ""));
      int mask = (int)c.knob(fmt("view%d_filter", v).c_str(), kAllKeys);
      std::unique_ptr<sdkmet::AttributesProcessor> ap;
      if (mask == kAllKeys)
        ap.reset(new sdkmet::DefaultAttributesProcessor);
      else
      {
        std::unordered_map<std::string, bool> allow;
        for (int k = 0; k < kNKeys; ++k)
          if ((mask >> k) & 1)
            allow[kKeys[k]] = true;
        ap.reset(new sdkmet::FilteringAttributesProcessor(allow));
      }
      std::shared_ptr<sdkmet::AggregationConfig> cfg;
      auto at = sdkmet::AggregationType::kDefault;
      if (is_hist(kind))
      {
        auto hc             = std::make_shared<sdkmet::HistogramAggregationConfig>();
        hc->boundaries_     = bounds_preset((int)c.knob(fmt("bounds%d", vi).c_str(), 0));
        hc->record_min_max_ = c.knob(fmt("view%d_minmax", v).c_str(), 1) != 0;
        cfg                 = hc;
        at                  = sdkmet::AggregationType::kHistogram;
      }
      else if (c.knob(fmt("view%d_explicit_agg", v).c_str(), 0))
        at = sdkmet::AggregationType::kSum;  // spelled out: must behave like the default
      std::unique_ptr<sdkmet::View> view(new sdkmet::View(
          c.knob(fmt("view%d_named", v).c_str(), 1) ? fmt("view%d", v) : std::string(), "", "", at,
          cfg, std::move(ap)));
      w.prov->AddView(std::move(is), std::move(ms), std::move(view));
    }
    for (int r = 0; r < nread; ++r)
    {
      std::shared_ptr<sdkmet::MetricReader> rd;
      if (r == 0 && c.knob("periodic", 0))
      {
        sdkmet::PeriodicExportingMetricReaderOptions o;
        o.export_interval_millis = std::chrono::milliseconds(60000);
        o.export_timeout_millis  = std::chrono::milliseconds(30000);
        rd.reset(new sdkmet::PeriodicExportingMetricReader(
            std::unique_ptr<sdkmet::PushMetricExporter>(
                new CaptureMetricExporter((int)c.knob("temp0", 0))),
            o));
      }
      else
        rd.reset(new PullReader((int)c.knob(fmt("temp%d", r).c_str(), 0), c.knob("temp_split", 0) != 0));
      w.readers.push_back(rd);
      w.prov->AddMetricReader(rd);
    }
    w.meter  = w.prov->GetMeter("m");
    w.meter2 = w.prov->GetMeter("m2", "2.0");
    // knob late_instr0: instrument 0 is not created up front; every recorder task creates it
    // itself as its first operation, so the very first registrations of one instrument race
    for (int i = 0; i < ninstr; ++i)
      if (!(i == 0 && c.knob("late_instr0", 0)))
        make_handle(w, i);
  }
  run_tasks(c, [&](int i, const TaskProg &t) { run_program(w, i, t); });
  // final quiescent collection per reader
  for (int r = 0; r < nread; ++r)
    do_collect(w, r, true);
  // tear down
  w.handles.clear();
  w.meter  = nostd::shared_ptr<metrics_api::Meter>(nullptr);
  w.meter2 = nostd::shared_ptr<metrics_api::Meter>(nullptr);
  w.readers.clear();
  w.prov.reset();
  w.storage.reset();
  W = nullptr;
  g_keep.c           = nullptr;
  g_keep.collections = w.collections;
  g_keep.meas        = w.meas;
  g_keep.sdk_start   = w.sdk_start;
  g_keep.final_ok    = w.final_ok;
}

// ------------------------------------------------------------------- oracle
struct Stream
{
  std::string name;
  int instr;
  int mask;     // attribute allow mask
  int view = -1;
};

void report_for(const Case &c, const std::string &cls, const std::string &detail)
{
  if (cls.compare(0, 3, c.prop) == 0)
    vsim::report(cls, detail);
  else
    vsim::probe("other_property_class_seen");
}

// decodes |v| in base 4 into digits; returns false if v is not a non-negative integer
bool decode(long double v, std::vector<int> &digits)
{
  if (v < 0)
    v = -v;
  if (v != std::floor(v) || v >= 4.0e18L)
    return false;
  uint64_t u = (uint64_t)v;
  digits.assign(32, 0);
  for (int i = 0; i < 32; ++i)
    digits[i] = (int)((u >> (2 * i)) & 3);
  return true;
}

void check(const Case &c, const vsim::RunResult &)
{
  g_hash_twins = (int)c.knob("hash_twins", 0);
  World &w   = g_keep;
  int ninstr = (int)c.knob("ninstr", 1), nread = (int)c.knob("nreaders", 1);
  int nviews = (int)c.knob("nviews", 0);
  bool direct = c.knob("direct_limit", 0) != 0;
  int64_t limit = direct ? c.knob("direct_limit", 2000) : 2000;
  // streams per instrument
  std::vector<Stream> streams;
  for (int i = 0; i < ninstr; ++i)
  {
    bool any = false;
    for (int v = 0; v < nviews && !direct; ++v)
      if (c.knob(fmt("view%d_instr", v).c_str(), 0) == i)
      {
        Stream s;
        s.instr = i;
        s.view  = v;
        s.mask  = (int)c.knob(fmt("view%d_filter", v).c_str(), kAllKeys);
        s.name  = c.knob(fmt("view%d_named", v).c_str(), 1) ? fmt("view%d", v) : instr_name(i);
        streams.push_back(s);
        any = true;
      }
    if (!any)
      streams.push_back({instr_name(i), i, direct ? (int)c.knob("filter0", kAllKeys) : kAllKeys, -1});
  }
  // handles: which was the latest created per instrument (a loss explained by the
  // duplicate-handle defect F5b, fixed in the tree, is named as such if it ever returns)
  std::vector<int> latest_handle(ninstr, 0);
  bool dup_handles = false;
  for (auto &e : hist())
    if (e.type == E_HANDLE)
    {
      latest_handle[e.a] = (int)e.b;
      dup_handles        = true;
    }
  int64_t sdk_start = 0;

  for (int r = 0; r < nread; ++r)
  {
    int temp_base = (int)c.knob(fmt("temp%d", r).c_str(), 0);  // 0 delta 1 cumulative
    // temp_split: a pull reader's temporality depends on the instrument type (the up-down
    // counters get the other one, as with the OTLP "delta" preference); not for the periodic
    // reader's exporter or the direct collectors
    bool split = c.knob("temp_split", 0) != 0 && c.knob("direct_limit", 0) == 0 &&
                 !(r == 0 && c.knob("periodic", 0));
    std::vector<const Collection *> cols;
    for (auto &col : w.collections)
      if (col.reader == r)
        cols.push_back(&col);
    std::sort(cols.begin(), cols.end(),
              [](const Collection *a, const Collection *b) { return a->number < b->number; });
    for (const Stream &st : streams)
    {
      int kind = (int)c.knob(fmt("itype%d", st.instr).c_str(), 0);
      int temp = temp_base ^ ((split && (kind == I_UPDOWN_LONG || kind == I_UPDOWN_DOUBLE)) ? 1 : 0);
      std::vector<const Meas *> ms;
      for (auto &m : w.meas)
        if (m.instr == st.instr)
          ms.push_back(&m);
      // per measurement: in how many reports of this (reader, stream) it appeared
      std::map<int64_t, bool> placed_overflow;  // digit -> first seen in the overflow series?
      std::map<int64_t, int> seen_total;        // digit -> count over all delta reports
      std::set<int64_t> prev_cum;               // digits in the previous cumulative report
      int64_t prev_end = -1;
      bool first_report = true;
      bool unexplained_loss = false, explained_loss = false;
      std::map<std::string, Point> hist_delta_by_series;
      std::map<std::string, Point> hist_last_cum_by_series;

      for (const Collection *col : cols)
      {
        const Report *rep = nullptr;
        int nrep = 0;
        for (auto &rp : col->reports)
          if (rp.stream == st.name)
          {
            rep = &rp;
            ++nrep;
          }
        if (nrep > 1)
          report_for(c, "C06.stream_reported_twice",
                     fmt("reader %d: stream %s appears %d times in one collection", r,
                         st.name.c_str(), nrep));
        std::set<int64_t> in_this;  // digits contained in this report
        if (rep)
        {
          // ---- timestamps (all handles of an instrument share the stream's storage, so the
          // interval checks hold whatever number of handles was created)
          const bool ts_checks = true;
          if ((rep->temporality == 2) != (temp == 1))
            report_for(c, "C06.temporality", fmt("reader %d: wrong temporality reported", r));
          if (!ts_checks)
          {
          }
          else if (temp == 1)
          {
            if (sdk_start == 0)
              sdk_start = rep->start_ts;
            if (rep->start_ts != sdk_start)
              report_for(c, "C06.cumulative_start",
                         fmt("reader %d stream %s: cumulative point starts at %lld, SDK start is "
                             "%lld",
                             r, st.name.c_str(), (long long)rep->start_ts, (long long)sdk_start));
          }
          else
          {
            if (first_report)
            {
              if (sdk_start == 0)
                sdk_start = rep->start_ts;
              if (rep->start_ts != sdk_start)
                report_for(c, "C06.delta_first_start",
                           fmt("reader %d stream %s: first delta point does not start at SDK "
                               "start",
                               r, st.name.c_str()));
            }
            else if (rep->start_ts != prev_end)
              report_for(c, "C06.delta_not_abutting",
                         fmt("reader %d stream %s: delta point %d starts at %lld but the previous "
                             "one ended at %lld",
                             r, st.name.c_str(), col->number, (long long)rep->start_ts,
                             (long long)prev_end));
          }
          prev_end     = rep->end_ts;
          first_report = false;
          // ---- C08: series identity and count
          std::set<std::string> attr_seen;
          int overflow_points = 0;
          for (auto &p : rep->points)
          {
            if (!attr_seen.insert(p.attrs).second)
              report_for(c, "C08.duplicate_series",
                         fmt("reader %d stream %s: two points with equal attributes {%s}", r,
                             st.name.c_str(), p.attrs.c_str()));
            if (p.overflow)
              ++overflow_points;
          }
          if ((int64_t)rep->points.size() > limit)
            report_for(c,
                       col->number == 0 && temp == 0 ? "C08.series_over_limit.first_interval"
                                                      : "C08.series_over_limit.later_or_merged",
                       fmt("reader %d stream %s collection %d: %zu series reported, limit %lld", r,
                           st.name.c_str(), col->number, rep->points.size(), (long long)limit));
          if (overflow_points)
            vsim::probe("metrics.overflow_series_reported");
          // the overflow series exists only for the excess: if the whole run records fewer
          // distinct (filtered) attribute sets on this stream than the limit admits (limit - 1
          // regular series), no interval map and no merged map ever needs it
          if (overflow_points)
          {
            std::set<std::string> distinct;
            for (auto *m : ms)
              distinct.insert(canon_attrs(attrs_of(m->attr_id, st.mask)));
            if ((int64_t)distinct.size() <= limit - 1)
              report_for(c, "C08.overflow_without_excess",
                         fmt("reader %d stream %s collection %d: an overflow series is reported "
                             "although only %zu distinct attribute sets were ever recorded "
                             "(limit %lld)",
                             r, st.name.c_str(), col->number, distinct.size(), (long long)limit));
          }
          // ---- counters: decode every point
          if (!is_hist(kind))
          {
            for (auto &p : rep->points)
            {
              if (!p.is_sum)
              {
                report_for(c, "C06.point_type", "counter stream reported a non-sum point");
                continue;
              }
              bool neg = (kind == I_UPDOWN_LONG || kind == I_UPDOWN_DOUBLE);
              if (p.monotonic == neg)
                report_for(c, "C06.monotonic_flag",
                           fmt("reader %d stream %s: is_monotonic=%d on %s", r, st.name.c_str(),
                               (int)p.monotonic, neg ? "an up-down counter" : "a counter"));
              if ((p.sum < 0) != neg && p.sum != 0)
                report_for(c, "C06.garbage", fmt("reader %d: sum has the wrong sign", r));
              std::vector<int> dg;
              if (!decode(p.sum, dg))
              {
                report_for(c, "C06.garbage", fmt("reader %d: sum %Lg is not a combination of the "
                                                 "recorded values",
                                                 r, p.sum));
                continue;
              }
              for (int d = 0; d < 32; ++d)
              {
                if (!dg[d])
                  continue;
                const Meas *m = nullptr;
                for (auto *x : ms)
                  if (x->digit == d)
                    m = x;
                if (!m)
                {
                  report_for(c, "C06.garbage",
                             fmt("reader %d stream %s: report contains 4^%d which was never "
                                 "recorded",
                                 r, st.name.c_str(), d));
                  continue;
                }
                if (dg[d] > 1)
                  report_for(c, "C06.duplicate",
                             fmt("reader %d stream %s: measurement #%d counted %d times in one "
                                 "point",
                                 r, st.name.c_str(), d, dg[d]));
                if (!placed_overflow.count(d))
                  placed_overflow[d] = p.overflow;
                if (!in_this.insert(d).second)
                  report_for(c, "C06.duplicate",
                             fmt("reader %d stream %s: measurement #%d is in two series of one "
                                 "report",
                                 r, st.name.c_str(), d));
                if (m->inv > col->ret)
                  report_for(c, "C06.from_future",
                             fmt("reader %d: collection %d contains measurement #%d invoked after "
                                 "it returned",
                                 r, col->number, d));
                // series identity (C08)
                std::string exp = canon_attrs(attrs_of(m->attr_id, st.mask));
                if (!p.overflow && p.attrs != exp)
                  report_for(c, "C08.wrong_series",
                             fmt("reader %d stream %s: measurement #%d with attributes {%s} landed "
                                 "in series {%s}",
                                 r, st.name.c_str(), d, exp.c_str(), p.attrs.c_str()));
                // (C06: what a reader receives FOR AN ATTRIBUTE SET is what was recorded for it)
                if (!p.overflow && p.attrs != exp)
                  report_for(c, "C06.under_other_attribute_set",
                             fmt("reader %d stream %s: measurement #%d recorded for {%s} is "
                                 "reported in the point of {%s}",
                                 r, st.name.c_str(), d, exp.c_str(), p.attrs.c_str()));
                if (p.overflow && p.attrs != kOverflowKey + "=b:1;")
                  report_for(c, "C08.overflow_attributes",
                             fmt("overflow series has attributes {%s}", p.attrs.c_str()));
              }
            }
          }
          else
          {
            // ---- histograms: per point invariants; accumulate
            for (auto &p : rep->points)
            {
              if (!p.is_hist)
              {
                report_for(c, "C07.point_type", "histogram stream reported a non-histogram point");
                continue;
              }
              uint64_t tot = 0;
              for (auto x : p.counts)
                tot += x;
              if (tot != p.count)
                report_for(c, "C07.bucket_sum",
                           fmt("reader %d stream %s: bucket counts add up to %llu, count is %llu",
                               r, st.name.c_str(), (unsigned long long)tot,
                               (unsigned long long)p.count));
              if (p.counts.size() != p.bounds.size() + 1)
                report_for(c, "C07.bucket_shape", "counts.size() != boundaries.size()+1");
              if (temp == 0)
              {
                Point &acc = hist_delta_by_series[p.attrs];
                if (acc.counts.empty())
                {
                  acc        = p;
                  acc.counts = p.counts;
                }
                else
                {
                  for (size_t i = 0; i < acc.counts.size() && i < p.counts.size(); ++i)
                    acc.counts[i] += p.counts[i];
                  acc.count += p.count;
                  acc.sum += p.sum;
                  if (p.count)
                  {
                    acc.min = std::min(acc.min, p.min);
                    acc.max = std::max(acc.max, p.max);
                  }
                }
              }
              else
                hist_last_cum_by_series[p.attrs] = p;
            }
          }
        }
        if (is_hist(kind))
          continue;
        // ---- conservation relative to this collection
        if (temp == 0)
        {
          for (int64_t d : in_this)
            if (++seen_total[d] > 1)
              report_for(c, "C06.duplicate",
                         fmt("reader %d stream %s: measurement #%lld reported in two delta "
                             "collections",
                             r, st.name.c_str(), (long long)d));
          for (auto *m : ms)
            if (m->ret < col->inv && !seen_total.count(m->digit))
            {
              bool orphan = dup_handles && m->handle != latest_handle[m->instr];
              if (orphan)
                explained_loss = true;
              else
              {
                unexplained_loss = true;
                report_for(c, "C06.delta_lost",
                           fmt("reader %d stream %s: measurement #%lld returned before collection "
                               "%d began but is in no report so far",
                               r, st.name.c_str(), (long long)m->digit, col->number));
              }
            }
        }
        else
        {
          for (auto *m : ms)
            if (m->ret < col->inv && !in_this.count(m->digit))
            {
              bool orphan = dup_handles && m->handle != latest_handle[m->instr];
              if (orphan)
                explained_loss = true;
              else
              {
                unexplained_loss = true;
                report_for(c, "C06.cumulative_missing",
                           fmt("reader %d stream %s: cumulative collection %d lacks measurement "
                               "#%lld recorded before it began",
                               r, st.name.c_str(), col->number, (long long)m->digit));
              }
            }
          for (int64_t d : prev_cum)
            if (!in_this.count(d) && rep)
            {
              const Meas *m = nullptr;
              for (auto *x : ms)
                if (x->digit == d)
                  m = x;
              bool orphan = dup_handles && m && m->handle != latest_handle[m->instr];
              if (orphan)
                explained_loss = true;
              else
                report_for(c, "C06.cumulative_shrank",
                           fmt("reader %d stream %s: measurement #%lld was in the previous "
                               "cumulative report but not in collection %d",
                               r, st.name.c_str(), (long long)d, col->number));
            }
          if (rep)
            prev_cum = in_this;
        }
      }
      // ---- C08: equal sets land in one series. Within one interval of the storage (no
      // collection by any reader overlaps the two calls) a set that was admitted to its own
      // series must keep it: a later measurement with the same filtered set may not be folded
      // into the overflow series.
      if (!is_hist(kind))
        for (auto *m1 : ms)
          for (auto *m2 : ms)
          {
            if (m1->ret >= m2->inv)
              continue;
            auto p1 = placed_overflow.find(m1->digit), p2 = placed_overflow.find(m2->digit);
            if (p1 == placed_overflow.end() || p2 == placed_overflow.end() || p1->second ||
                !p2->second)
              continue;
            if (attrs_of(m1->attr_id, st.mask) != attrs_of(m2->attr_id, st.mask))
              continue;
            bool same_interval = true;
            for (auto &col : w.collections)
              if (col.ret > m1->inv && col.inv < m2->ret)
                same_interval = false;
            if (same_interval)
              report_for(c, "C06.under_other_attribute_set",
                         fmt("reader %d stream %s: measurement #%lld for {%s} was reported in the "
                             "overflow series although the set owns a series in that interval "
                             "(measurement #%lld)",
                             r, st.name.c_str(), (long long)m2->digit,
                             canon_attrs(attrs_of(m1->attr_id, st.mask)).c_str(),
                             (long long)m1->digit));
            if (same_interval)
              report_for(c, "C08.admitted_set_overflowed",
                         fmt("reader %d stream %s: measurement #%lld landed in its own series "
                             "{%s} but the later measurement #%lld with the same attribute set, "
                             "in the same collection interval, was folded into the overflow series",
                             r, st.name.c_str(), (long long)m1->digit,
                             canon_attrs(attrs_of(m1->attr_id, st.mask)).c_str(),
                             (long long)m2->digit));
          }
      if (explained_loss && !unexplained_loss)
        report_for(c, "C06.orphaned_storage.duplicate_handle",
                   fmt("reader %d stream %s: measurements made through an earlier handle of "
                       "instrument %d are missing after a second handle for the same instrument "
                       "was created",
                       r, st.name.c_str(), st.instr));
      // (the periodic reader's final flush may have timed out: then there was no final
      // quiescent collection for it and end-of-run totals are not comparable)
      bool final_done = !(r == 0 && c.knob("periodic", 0) && !w.final_ok);
      // ---- histograms: totals against the one-shot model, per series
      if (is_hist(kind) && !final_done)
        continue;
      if (is_hist(kind))
      {
        std::vector<double> bounds = bounds_preset(
            st.view >= 0 ? (int)c.knob(fmt("bounds%d", st.instr).c_str(), 0) : 0);
        bool minmax = st.view >= 0 ? c.knob(fmt("view%d_minmax", st.view).c_str(), 1) != 0 : true;
        std::map<std::string, HistModel> model;
        bool exact = c.knob("wild_values", 0) == 0;
        for (auto *m : ms)
        {
          HistModel &hm = model[canon_attrs(attrs_of(m->attr_id, st.mask))];
          if (hm.counts.empty())
            hm.init(bounds.size());
          hm.add(m->hvalue, bounds);
        }
        auto &got = temp == 0 ? hist_delta_by_series : hist_last_cum_by_series;
        for (auto &kv : model)
        {
          auto it = got.find(kv.first);
          if (it == got.end())
          {
            report_for(c, "C07.series_missing",
                       fmt("reader %d stream %s: no histogram for series {%s}", r, st.name.c_str(),
                           kv.first.c_str()));
            continue;
          }
          const Point &p      = it->second;
          const HistModel &hm = kv.second;
          if (p.bounds != bounds)
            report_for(c, "C07.boundaries", fmt("reader %d stream %s: boundaries differ from the "
                                                "configured ones",
                                                r, st.name.c_str()));
          if (p.count != hm.count)
            report_for(c, "C07.count", fmt("reader %d stream %s series {%s}: count %llu, recorded "
                                           "%llu values",
                                           r, st.name.c_str(), kv.first.c_str(),
                                           (unsigned long long)p.count,
                                           (unsigned long long)hm.count));
          else if (p.counts != hm.counts)
          {
            std::string a, b;
            for (auto x : p.counts)
              a += std::to_string(x) + ",";
            for (auto x : hm.counts)
              b += std::to_string(x) + ",";
            report_for(c, "C07.buckets",
                       fmt("reader %d stream %s series {%s}: buckets [%s], model [%s]", r,
                           st.name.c_str(), kv.first.c_str(), a.c_str(), b.c_str()));
          }
          long double tol = exact ? 0 : fabsl(hm.sum) * 1e-12L * (hm.count + 1);
          if (fabsl(p.sum - hm.sum) > tol)
            report_for(c, "C07.sum", fmt("reader %d stream %s series {%s}: sum %Lg, model %Lg", r,
                                         st.name.c_str(), kv.first.c_str(), p.sum, hm.sum));
          if (minmax && p.minmax && hm.any)
          {
            if (p.min != hm.min)
              report_for(c, "C07.min", fmt("reader %d stream %s series {%s}: min %g, smallest "
                                           "recorded value %g",
                                           r, st.name.c_str(), kv.first.c_str(), p.min, hm.min));
            if (p.max != hm.max)
              report_for(c, "C07.max", fmt("reader %d stream %s series {%s}: max %g, largest "
                                           "recorded value %g",
                                           r, st.name.c_str(), kv.first.c_str(), p.max, hm.max));
          }
        }
        for (auto &kv : got)
          if (!model.count(kv.first))
            report_for(c, "C07.series_unknown",
                       fmt("reader %d stream %s: histogram for a series nobody recorded {%s}", r,
                           st.name.c_str(), kv.first.c_str()));
        continue;
      }
      // ---- counters, after the final quiescent collection: everything exactly once (delta)
      if (temp == 0 && final_done)
        for (auto *m : ms)
          if (!seen_total.count(m->digit))
          {
            bool orphan = dup_handles && m->handle != latest_handle[m->instr];
            if (!orphan)
              report_for(c, direct || nviews ? "C08.not_conserved" : "C06.delta_lost",
                         fmt("reader %d stream %s: measurement #%lld is in no delta report",
                             r, st.name.c_str(), (long long)m->digit));
          }
    }
    // streams that should not exist
    for (auto *colp : cols)
      for (auto &rp : colp->reports)
      {
        bool known = false;
        for (auto &st : streams)
          if (st.name == rp.stream)
            known = true;
        if (!known)
          report_for(c, "C06.unknown_stream", fmt("reader %d reported unknown stream %s", r,
                                                  rp.stream.c_str()));
      }
  }
}

// --------------------------------------------------------------- generation
void generate(const std::string &prop, Rng &wl, Rng &fl, Case &c)
{
  vsim::SimKnobs sk;
  sk.allow_call_points = true;
  sk.allow_cas_spurious = false;
  sk.allow_stall        = true;
  sk.allow_sysjump      = true;
  sk.faults_on          = fl.chance(0.6);
  sk.stall_cap          = 500;
  sk.typical_len        = 1500;
  int ninstr            = (int)wl.range(1, prop == "C06" ? 3 : 2);
  int nread             = (int)wl.range(1, 3);
  c.set("ninstr", ninstr);
  c.set("nreaders", nread);
  for (int r = 0; r < nread; ++r)
    c.set(fmt("temp%d", r).c_str(), (int64_t)wl.below(2));
  c.set("temp_split", wl.chance(0.2));
  std::string stratum = "api";
  bool direct         = false;
  // direct SyncMetricStorage with an explicit small cardinality limit: C08's limit clauses, and
  // for C06 "what was recorded for that set" when the interval map is full (a set that owns a
  // series keeps receiving its measurements)
  if ((prop == "C08" && wl.chance(0.45)) || (prop == "C06" && wl.chance(0.12)))
  {
    direct  = true;
    ninstr  = 1;
    c.set("ninstr", 1);
    c.set("direct_limit", wl.range(2, 6));
    c.set("filter0", wl.chance(0.5) ? kAllKeys : (int64_t)wl.range(0, 30));
    stratum = "direct_limit";
  }
  for (int i = 0; i < ninstr; ++i)
  {
    int kind;
    if (prop == "C07")
      kind = wl.chance(0.5) ? I_HIST_LONG : I_HIST_DOUBLE;
    else
      kind = (int)wl.below(4);
    c.set(fmt("itype%d", i).c_str(), kind);
    c.set(fmt("bounds%d", i).c_str(), (int64_t)wl.below(7));
  }
  if (prop == "C07")
    c.set("wild_values", wl.chance(0.4));
  int nviews = 0;
  if (!direct)
  {
    nviews = prop == "C06" ? (wl.chance(0.4) ? (int)wl.range(1, 2) : 0)
             : prop == "C07" ? (int)wl.range(0, 2)
                             : (int)wl.range(1, 2);
    c.set("nviews", nviews);
    for (int v = 0; v < nviews; ++v)
    {
      c.set(fmt("view%d_instr", v).c_str(), (int64_t)wl.below(ninstr));
      c.set(fmt("view%d_named", v).c_str(), 1);
      c.set(fmt("view%d_filter", v).c_str(),
            prop == "C06" ? kAllKeys : (wl.chance(0.3) ? kAllKeys : (int64_t)wl.range(0, 30)));
      c.set(fmt("view%d_minmax", v).c_str(), wl.chance(0.8));
      c.set(fmt("view%d_explicit_agg", v).c_str(), wl.chance(0.5));
    }
    if (nviews)
      stratum = "api_views";
  }
  if (!direct && ninstr >= 2 && wl.chance(0.4))
  {
    bool targeted = false;
    for (int v = 0; v < nviews; ++v)
      if (c.knob(fmt("view%d_instr", v).c_str(), 0) == ninstr - 1)
        targeted = true;
    if (!targeted)
      c.set("second_meter", 1);  // views select meter "m" only
  }
  bool dup = !direct && wl.chance(prop == "C06" ? 0.15 : 0.08);
  if (dup)
    stratum = "duplicate_handle";
  if (!direct && !dup && prop != "C08" && wl.chance(0.2))
  {
    c.set("periodic", 1);
    stratum += "_periodic";
  }
  // a quarter of the runs use attribute values of different types with colliding hashes
  bool twins = wl.chance(0.25);
  if (twins)
  {
    c.set("hash_twins", 1);
    stratum += "_hashtwins";
  }
  // recorder tasks
  int nrec = (int)wl.range(1, 2);
  bool late0 = dup && wl.chance(0.5);
  if (late0)
  {
    nrec = 2;
    c.set("late_instr0", 1);
  }
  std::vector<int> next_digit(ninstr, 0);
  int nsets = prop == "C08" ? 1024 : 8;
  for (int t = 0; t < nrec; ++t)
  {
    TaskProg p;
    p.role = R_RECORDER;
    int n  = (int)wl.range(2, vsim::tier_scale() > 1 && wl.chance(0.5) ? 32 : 20);
    if (late0)
      p.ops.push_back({OP_NEW_HANDLE, 0, 0, 0, 0});
    for (int j = 0; j < n; ++j)
    {
      int i = late0 && wl.chance(0.6) ? 0 : (int)wl.below(ninstr);
      if (dup && wl.chance(0.1))
      {
        p.ops.push_back({OP_NEW_HANDLE, i, 0, 0, 0});
        continue;
      }
      if (wl.chance(0.1))
      {
        p.ops.push_back({OP_SLEEP, (int64_t)wl.range(1, 1000) * 1000, 0, 0, 0});
        continue;
      }
      if (next_digit[i] >= kMaxDigits)
        continue;
      int64_t aid = prop == "C08" ? (int64_t)wl.below(nsets)
                                  : (int64_t)(wl.chance(0.2) ? 0 : wl.below(1024));
      if (prop == "C06" && wl.chance(0.5))
        aid &= 0x0f;  // fewer distinct sets: more merging into one series
      if (twins && wl.chance(0.7))
      {
        // k0 = int64 1 / bool true, k1 = "v1" / ["v1"], k3 = int64[2,3] / int32[2,3]
        static const int64_t kTwinIds[9] = {1, 2, 3, 1 << 2, 3 << 2, 2 << 4, 3 << 4, 2 << 6, 3 << 6};
        aid = kTwinIds[wl.below(9)] | (wl.chance(0.2) ? (int64_t)wl.range(1, 3) << 8 : 0);
      }
      p.ops.push_back({OP_ADD, i, aid, next_digit[i]++, (int64_t)(wl.next() >> 2)});
    }
    c.tasks.push_back(p);
  }
  for (int r = 0; r < nread; ++r)
  {
    TaskProg p;
    p.role = R_COLLECTOR;
    int n  = (int)wl.range(0, vsim::tier_scale() > 1 && wl.chance(0.5) ? 7 : 4);
    for (int j = 0; j < n; ++j)
    {
      if (wl.chance(0.3))
        p.ops.push_back({OP_SLEEP, (int64_t)wl.range(1, 1000) * 1000, 0, 0, 0});
      p.ops.push_back({OP_COLLECT, r, 0, 0, 0});
    }
    c.tasks.push_back(p);
  }
  c.stratum = stratum + (sk.faults_on ? ".faults" : ".nofaults");
  vsim::draw_run_config(fl, sk, c.rc);
  c.rc.budget1 = 60000;
  c.rc.budget2 = 120000;
}

std::string describe_op(const Case &c, int, const Op &op)
{
  g_hash_twins = (int)c.knob("hash_twins", 0);
  switch (op.kind)
  {
    case OP_ADD:
      return fmt("instr%lld: record measurement #%lld with attribute set %lld {%s} (key order "
                 "seed %llx)",
                 (long long)op.a, (long long)op.c, (long long)op.b,
                 canon_attrs(attrs_of(op.b, kAllKeys)).c_str(), (unsigned long long)op.d);
    case OP_COLLECT:
      return fmt("reader %lld: Collect", (long long)op.a);
    case OP_NEW_HANDLE:
      return fmt("create another handle for instr%lld", (long long)op.a);
    case OP_SLEEP:
      return fmt("sleep %.3f ms (simulated)", op.a / 1e6);
  }
  return "?";
}
std::string describe_fault(const Case &, const Fault &)
{
  return "";
}

const char *const kProps[] = {"C06", "C07", "C08", nullptr};
const std::pair<const char *, int64_t> kShrink[] = {{"nreaders", 1}, {"nviews", 0}, {nullptr, 0}};
const char *const kReal[] = {"sdk/metrics/meter_provider.cc, meter_context.cc, meter.cc",
                             "sdk/metrics/sync_instruments.cc",
                             "sdk/metrics/state/sync_metric_storage.{h,cc}, "
                             "temporal_metric_storage.cc, multi_metric_storage.h",
                             "sdk/metrics/state/metric_collector.cc, metric_reader.cc",
                             "sdk/metrics/state/attributes_hashmap.h, "
                             "filtered_ordered_attribute_map.{h,cc}",
                             "sdk/metrics/aggregation/sum_aggregation.cc, histogram_aggregation.cc",
                             "sdk/metrics/view/* (registry, selectors, attribute processors)",
                             "api/common/spin_lock_mutex.h", nullptr};
const char *const kStub[] = {"pull MetricReader (Collect called from simulated collector tasks)",
                             "PushMetricExporter behind a real PeriodicExportingMetricReader (20% of C06/C07 runs)",
                             "CollectorHandle stubs for the direct SyncMetricStorage stratum", nullptr};
}  // namespace

namespace vsim
{
const EngineDesc g_engine = {
    "metrics",
    kProps,
    generate,
    body,
    check,
    describe_op,
    describe_fault,
    kShrink,
    kReal,
    kStub,
    "one run = MeterProvider with 1-3 pull readers of mixed temporality (each collected from its "
    "own task, plus one final quiescent collection), 0-2 named views (attribute allow-lists, "
    "histogram boundaries, min/max), 1-3 instruments (counter / up-down counter / histogram, "
    "long / double), 1-2 recorder tasks x 2-20 operations with attribute sets over 5 keys (one a prefix of the others) x 3 "
    "values (int64, string, bool, double, int64 array, string array; in a quarter of the runs also values of another type whose hash collides with an existing value of the key) passed in a per-call key order with overwritten duplicates; counter measurement k "
    "adds +-4^k so each reported sum decodes into the measurements it contains; C08 also drives "
    "SyncMetricStorage directly with limits 2-6; a minority stratum creates a second handle for "
    "an instrument while recorders and collectors run; scheduler faults: task stalls and system clock jumps; "
    "distinct = distinct (workload hash, trace hash); non-trivial = >= 2 tasks and >= 1 context "
    "switch while a task was inside Add/Record/Collect. Attribute and value spaces are sampled "
    "by the generator, not searched."};
}
