// logs engine - C13: an exported log record carries what was emitted,
// correlated with the span active on the emitting thread. 1-3 tasks with their
// own active-span stacks emit through simple / batch / multiple processors; the
// caller's buffers are overwritten (string/array values: known finding F8) or
// freed (everything else) as soon as Emit returns.
#include "harness.h"
#include "values.h"

#include "opentelemetry/logs/event_id.h"
#include "opentelemetry/logs/logger.h"
#include "opentelemetry/logs/severity.h"
#include "opentelemetry/sdk/instrumentationscope/scope_configurator.h"
#include "opentelemetry/sdk/logs/batch_log_record_processor.h"
#include "opentelemetry/sdk/logs/batch_log_record_processor_options.h"
#include "opentelemetry/sdk/logs/exporter.h"
#include "opentelemetry/sdk/logs/logger.h"
#include "opentelemetry/sdk/logs/logger_config.h"
#include "opentelemetry/sdk/logs/logger_context.h"
#include "opentelemetry/sdk/logs/logger_provider.h"
#include "opentelemetry/sdk/logs/read_write_log_record.h"
#include "opentelemetry/sdk/logs/simple_log_record_processor.h"
#include "opentelemetry/sdk/resource/resource.h"
#include "opentelemetry/trace/default_span.h"
#include "opentelemetry/trace/scope.h"
#include "opentelemetry/trace/span_context.h"

using namespace hz;
namespace nostd     = opentelemetry::nostd;
namespace logs_api  = opentelemetry::logs;
namespace trace_api = opentelemetry::trace;
namespace sdklogs   = opentelemetry::sdk::logs;
namespace sdkcommon = opentelemetry::sdk::common;
namespace common    = opentelemetry::common;
namespace iscope    = opentelemetry::sdk::instrumentationscope;
using opentelemetry::sdk::resource::Resource;

namespace
{
enum OpKind
{
  OP_EMIT = 1,     // a=form b=body alternative c=attribute seed d=seed
  OP_SCOPE_BEGIN,  // a=span index b=scope index
  OP_SCOPE_END,    // a=scope index
  OP_CTX_BEGIN,    // a=span index b=scope index: attach a context whose span key holds a
                   // shared_ptr<SpanContext> (not a Span)
  OP_GETLOGGER     // a=k: this task asks the provider for a logger of its own scope
                   // "dyn-lib-t<task>-<k>" (concurrently with the other tasks); half of its
                   // later Emits go through it
};
const int kForms = 23, kSpans = 5, kScopes = 6;
const int64_t kExplicitTs = 1650000000000000000ll;

std::string hex(const uint8_t *p, size_t n)
{
  std::string s;
  for (size_t i = 0; i < n; ++i)
    s += fmt("%02x", p[i]);
  return s;
}

struct Snap
{
  int severity = 0;
  std::string body;
  std::map<std::string, std::string> attrs;
  int64_t ts = 0, event_id = 0, observed_ts = 0;
  std::string event_name, trace_id, span_id;
  int flags            = 0;
  const void *resource = nullptr, *scope = nullptr;
  std::string scope_name;
};

struct MAttr
{
  int alt;
  uint64_t seed;
  std::string expect;
};
struct MRec
{
  int64_t tag = 0;
  int task = 0, form = 0;
  int severity = 0;
  int body_alt = -1;  // -1: never set (reads as an empty string view)
  uint64_t body_seed = 0;
  std::string body   = "s:";
  std::map<std::string, MAttr> attrs;
  int64_t ts = 0, event_id = 0;
  std::string event_name;
  std::string trace_id = std::string(32, '0'), span_id = std::string(16, '0');
  int flags     = 0;
  bool emitted  = true;
  bool disabled = false;
  bool second_logger = false;
  std::string dyn_lib;  // non-empty: emitted through the task's own logger of this scope
  int64_t sys_before = 0, sys_after = 0;  // simulated system clock around the Emit call
};

struct World
{
  const Case *c = nullptr;
  std::vector<nostd::shared_ptr<trace_api::Span>> spans;
  std::vector<std::map<int64_t, std::vector<Snap>>> got;  // [exporter][tag]
  std::vector<bool> is_batch;
  std::map<int64_t, MRec> model;
  std::vector<val::Scratch::Block> retained;
  nostd::shared_ptr<logs_api::Logger> logger, dlogger, logger2;
  sdklogs::LoggerProvider *prov = nullptr;
  int nproc = 0, late = 0;  // late: processors added between CreateLogRecord and Emit (<= 2)
  const void *resource = nullptr, *scope = nullptr, *scope2 = nullptr;
};
World *W = nullptr;

class CaptureExporter final : public sdklogs::LogRecordExporter
{
public:
  explicit CaptureExporter(int idx) : idx_(idx) {}
  std::unique_ptr<sdklogs::Recordable> MakeRecordable() noexcept override
  {
    hz::HarnessCode hc_;
    return std::unique_ptr<sdklogs::Recordable>(new sdklogs::ReadWriteLogRecord);
  }
  sdkcommon::ExportResult Export(
      const nostd::span<std::unique_ptr<sdklogs::Recordable>> &records) noexcept override
  {
    hz::HarnessCode hc_;
    for (auto &r : records)
    {
      if (!r)
        continue;
      auto *lr = static_cast<sdklogs::ReadWriteLogRecord *>(r.get());
      Snap s;
      s.severity = (int)lr->GetSeverity();
      s.body     = val::canon_view(lr->GetBody());
      int64_t tag = -1;
      for (auto &kv : lr->GetAttributes())
      {
        s.attrs[kv.first] = val::canon_view(kv.second);
        if (kv.first == "tag" && nostd::holds_alternative<int64_t>(kv.second))
          tag = nostd::get<int64_t>(kv.second);
      }
      s.ts         = lr->GetTimestamp().time_since_epoch().count();
      s.observed_ts = lr->GetObservedTimestamp().time_since_epoch().count();
      s.event_id   = lr->GetEventId();
      s.event_name = std::string(lr->GetEventName());
      s.trace_id   = hex(lr->GetTraceId().Id().data(), 16);
      s.span_id    = hex(lr->GetSpanId().Id().data(), 8);
      s.flags      = lr->GetTraceFlags().flags();
      s.resource   = &lr->GetResource();
      s.scope      = &lr->GetInstrumentationScope();
      s.scope_name = lr->GetInstrumentationScope().GetName();
      W->got[idx_][tag].push_back(s);
    }
    vsim::yield();
    return sdkcommon::ExportResult::kSuccess;
  }
  bool ForceFlush(std::chrono::microseconds) noexcept override { hz::HarnessCode hc_; return true; }
  bool Shutdown(std::chrono::microseconds) noexcept override { hz::HarnessCode hc_; return true; }

private:
  int idx_;
};

struct TaskState
{
  int idx = 0;
  std::vector<std::unique_ptr<trace_api::Scope>> scopes;
  std::vector<nostd::unique_ptr<opentelemetry::context::Token>> tokens;  // OP_CTX_BEGIN
  std::vector<int> scope_span;
  std::vector<int> active;
  nostd::shared_ptr<logs_api::Logger> dyn;  // OP_GETLOGGER
  std::string dyn_lib;
};

typedef std::vector<std::pair<nostd::string_view, common::AttributeValue>> PairVec;
typedef nostd::span<const std::pair<nostd::string_view, common::AttributeValue>> PairSpan;

void model_attrs(MRec &m, const std::vector<val::KV> &kvs)
{
  for (auto &kv : kvs)
    m.attrs[kv.key] = {kv.alt, kv.seed, val::expect(kv.alt, kv.seed)};
}

void do_emit(TaskState &ts, const Op &op, int64_t tag)
{
  World &w = *W;
  MRec m;
  m.tag  = tag;
  m.task = ts.idx;
  m.form = (int)op.a;
  // identity from the innermost active span of THIS task (model)
  auto set_identity_from = [&](int span_idx) {
    auto sc    = w.spans[span_idx]->GetContext();
    m.trace_id = hex(sc.trace_id().Id().data(), 16);
    m.span_id  = hex(sc.span_id().Id().data(), 8);
    m.flags    = sc.trace_flags().flags();
  };
  if (!ts.active.empty())
    set_identity_from(ts.active.back());
  m.attrs["tag"] = {2, 0, "i64:" + std::to_string(tag)};

  val::Scratch vs;   // value storage: overwritten and retained (finding F8)
  val::Scratch ks;   // keys, names: overwritten and freed
  int alt          = (int)op.b;
  uint64_t seed    = (uint64_t)op.d;
  auto sev         = (logs_api::Severity)(1 + seed % 24);
  auto body_value  = [&]() {
    m.body_alt  = alt;
    m.body_seed = seed;
    m.body      = val::expect(alt, seed);
    return val::build(alt, seed, vs);
  };
  auto body_sv = [&](uint64_t sd) {
    m.body_alt  = 6;
    m.body_seed = sd;
    m.body      = val::expect(6, sd);
    return nostd::get<nostd::string_view>(val::build(6, sd, vs));
  };
  std::vector<val::KV> kvs = val::gen_kvs((uint64_t)op.c, "a.");
  auto pairs               = [&](bool with_kvs) {
    PairVec v;
    v.emplace_back(ks.view("tag"), common::AttributeValue(tag));
    if (with_kvs)
    {
      for (auto &kv : kvs)
        v.emplace_back(ks.view(kv.key), val::build(kv.alt, kv.seed, vs));
      model_attrs(m, kvs);
    }
    return v;
  };
  uint8_t xt[16] = {0xe1, 0xe2, (uint8_t)ts.idx, (uint8_t)seed, 5, 6, 7, 8, 9, 1, 2, 3, 4, 5, 6, 7};
  uint8_t xs[8]  = {0xf1, (uint8_t)ts.idx, (uint8_t)seed, 4, 5, 6, 7, 8};
  // explicit flags: half of the time the interesting small values 0 / 1
  const uint8_t xflags = ((seed >> 8) & 1) ? (uint8_t)(seed >> 16) : (uint8_t)((seed >> 9) & 1);
  trace_api::SpanContext xctx(trace_api::TraceId(xt), trace_api::SpanId(xs),
                              trace_api::TraceFlags(xflags), true);
  // form 22: the same as form 2 through a second (enabled) logger with its own scope
  m.second_logger = op.a == 22;
  if (ts.dyn && op.a != 22 && op.a != 13 && (((uint64_t)op.d >> 21) & 1))
    m.dyn_lib = ts.dyn_lib;
  auto &L = m.second_logger ? *w.logger2 : (!m.dyn_lib.empty() ? *ts.dyn : *w.logger);
  m.sys_before    = std::chrono::system_clock::now().time_since_epoch().count();
  vsim::yield();
  {
    InOp io;
    switch (op.a == 22 ? 4 : op.a)
    {
      case 0: {
        auto p = pairs(false);
        m.severity = (int)sev;
        L.EmitLogRecord(sev, PairSpan(p.data(), p.size()));
        break;
      }
      case 1: {
        auto p = pairs(false);
        m.severity = (int)sev;
        L.EmitLogRecord(sev, body_sv(seed), PairSpan(p.data(), p.size()));
        break;
      }
      case 2: {
        std::vector<val::KV> all = {{"tag", 2, 0}};
        m.severity               = (int)sev;
        model_attrs(m, kvs);
        // tag first, then the generated pairs, through a KeyValueIterable
        PairVec pv = pairs(false);
        struct It final : common::KeyValueIterable
        {
          PairVec v;
          bool ForEachKeyValue(nostd::function_ref<bool(nostd::string_view, common::AttributeValue)>
                                   cb) const noexcept override
          {
            for (auto &e : v)
              if (!cb(e.first, e.second))
                return false;
            return true;
          }
          size_t size() const noexcept override { return v.size(); }
        } it;
        it.v = pv;
        for (auto &kv : kvs)
          it.v.emplace_back(ks.view(kv.key), val::build(kv.alt, kv.seed, vs));
        (void)all;
        L.EmitLogRecord(sev, body_value(), static_cast<const common::KeyValueIterable &>(it));
        break;
      }
      case 3: {
        std::map<std::string, int64_t> mp{{"tag", tag}, {"m.k", (int64_t)(seed % 100)}};
        m.attrs["m.k"] = {2, 0, "i64:" + std::to_string((int64_t)(seed % 100))};
        L.EmitLogRecord(body_value(), mp);
        break;
      }
      case 4: {
        auto p     = pairs(true);
        m.severity = (int)sev;
        m.ts       = kExplicitTs + (int64_t)(seed % 1000);
        L.EmitLogRecord(sev, body_value(), common::SystemTimestamp(std::chrono::nanoseconds(m.ts)),
                        PairSpan(p.data(), p.size()));
        break;
      }
      case 5: {
        auto p       = pairs(false);
        m.event_id   = (int64_t)(seed % 5000);
        m.event_name = "evt" + std::to_string(seed % 7);
        L.EmitLogRecord(logs_api::EventId(m.event_id, ks.view(m.event_name)), body_sv(seed),
                        PairSpan(p.data(), p.size()));
        break;
      }
      case 6: {
        auto p     = pairs(false);
        m.severity = (int)sev;
        m.trace_id = hex(xt, 16);
        m.span_id  = hex(xs, 8);
        m.flags    = xflags;
        L.EmitLogRecord(xctx, sev, PairSpan(p.data(), p.size()));
        break;
      }
      case 7: {
        auto p     = pairs(false);
        m.trace_id = hex(xt, 16);
        m.span_id  = hex(xs, 8);
        m.flags    = xflags;
        L.EmitLogRecord(trace_api::TraceId(xt), trace_api::SpanId(xs),
                        trace_api::TraceFlags(xflags), body_value(),
                        PairSpan(p.data(), p.size()));
        break;
      }
      case 8: {
        auto p     = pairs(true);
        m.severity = (int)sev;
        L.EmitLogRecord(PairSpan(p.data(), p.size()), body_value(), sev);
        break;
      }
      case 9: {
        auto p     = pairs(false);
        m.severity = (int)sev;
        auto b1    = body_sv(seed + 5);
        L.EmitLogRecord(sev, b1, body_value(), PairSpan(p.data(), p.size()));  // last body wins
        break;
      }
      case 10: {
        auto rec = L.CreateLogRecord();
        if (rec)
        {
          m.severity = (int)sev;
          m.ts       = kExplicitTs + 7;
          rec->SetSeverity(sev);
          rec->SetBody(body_value());
          rec->SetAttribute(ks.view("tag"), tag);
          for (auto &kv : kvs)
            rec->SetAttribute(ks.view(kv.key), val::build(kv.alt, kv.seed, vs));
          model_attrs(m, kvs);
          rec->SetTimestamp(common::SystemTimestamp(std::chrono::nanoseconds(m.ts)));
          L.EmitLogRecord(std::move(rec));
        }
        break;
      }
      case 11: {
        auto p     = pairs(true);
        auto rec   = L.CreateLogRecord();
        m.severity = (int)sev;
        L.EmitLogRecord(std::move(rec), sev, body_value(), PairSpan(p.data(), p.size()));
        break;
      }
      case 12: {
        auto p = pairs(false);
        nostd::unique_ptr<logs_api::LogRecord> none;
        m.emitted = false;
        L.EmitLogRecord(std::move(none), sev, PairSpan(p.data(), p.size()));
        break;
      }
      case 13: {
        auto p     = pairs(false);
        m.emitted  = false;
        m.disabled = true;
        w.dlogger->EmitLogRecord(sev, body_sv(seed), PairSpan(p.data(), p.size()));
        break;
      }
      case 14: {
        auto p     = pairs(false);
        m.severity = (int)sev;
        m.ts       = kExplicitTs + 99;
        L.EmitLogRecord(std::chrono::system_clock::time_point(std::chrono::nanoseconds(m.ts)), sev,
                        PairSpan(p.data(), p.size()));
        break;
      }
      case 15: {
        auto p     = pairs(false);
        m.severity = (int)sev;
        m.span_id  = hex(xs, 8);  // only the span id is explicit; the rest stays correlated
        L.EmitLogRecord(trace_api::SpanId(xs), sev, PairSpan(p.data(), p.size()));
        break;
      }
      case 16: {
        auto p     = pairs(false);
        m.severity = (int)sev;
        m.event_id = (int64_t)(seed % 5000);
        L.EmitLogRecord(logs_api::EventId(m.event_id), sev, PairSpan(p.data(), p.size()));
        break;
      }
      case 17: {
        auto p = pairs(true);
        // a second attribute source overriding one key: last write wins
        std::map<std::string, int64_t> mp{{"a.a0", (int64_t)(seed % 9)}};
        m.attrs["a.a0"] = {2, 0, "i64:" + std::to_string((int64_t)(seed % 9))};
        m.severity      = (int)sev;
        L.EmitLogRecord(sev, PairSpan(p.data(), p.size()), mp);
        break;
      }
      case 19: {
        // virtual Log(severity, EventId, format, KeyValueIterable)
        PairVec pv = pairs(false);
        struct It final : common::KeyValueIterable
        {
          PairVec v;
          bool ForEachKeyValue(nostd::function_ref<bool(nostd::string_view, common::AttributeValue)>
                                   cb) const noexcept override
          {
            for (auto &e : v)
              if (!cb(e.first, e.second))
                return false;
            return true;
          }
          size_t size() const noexcept override { return v.size(); }
        } it;
        it.v         = pv;
        m.severity   = (int)sev;
        m.event_id   = (int64_t)(seed % 5000);
        m.event_name = "evt" + std::to_string(seed % 7);
        L.Log(sev, logs_api::EventId(m.event_id, ks.view(m.event_name)), body_sv(seed), it);
        break;
      }
      case 20: {
        // virtual Log(severity, int64 event id, format, KeyValueIterable)
        PairVec pv = pairs(false);
        struct It final : common::KeyValueIterable
        {
          PairVec v;
          bool ForEachKeyValue(nostd::function_ref<bool(nostd::string_view, common::AttributeValue)>
                                   cb) const noexcept override
          {
            for (auto &e : v)
              if (!cb(e.first, e.second))
                return false;
            return true;
          }
          size_t size() const noexcept override { return v.size(); }
        } it;
        it.v       = pv;
        m.severity = (int)sev;
        m.event_id = (int64_t)(seed % 5000);
        L.Log(sev, m.event_id, body_sv(seed), it);
        break;
      }
      case 21: {
        // convenience wrapper: Warn(args...) = EmitLogRecord(Severity::kWarn, args...)
        auto p     = pairs(true);
        m.severity = (int)logs_api::Severity::kWarn;
        L.Warn(body_value(), PairSpan(p.data(), p.size()));
        break;
      }
      default: {
        // record created under the current active span, emitted under another one
        auto rec = L.CreateLogRecord();
        auto p   = pairs(false);
        // a record held across LoggerProvider::AddProcessor (single-task programs only: the call
        // is not meant to race emitters). Nothing is demanded of the late processor's exporter;
        // the processors configured from the start still get the record exactly once.
        if (w.c->tasks.size() == 1 && ((seed >> 9) & 3) == 0 && w.late < 2 && w.prov)
        {
          std::unique_ptr<sdklogs::LogRecordExporter> e(new CaptureExporter(w.nproc + w.late++));
          w.prov->AddProcessor(std::unique_ptr<sdklogs::LogRecordProcessor>(
              new sdklogs::SimpleLogRecordProcessor(std::move(e))));
          vsim::probe("logs.processor_added_while_record_in_flight");
        }
        {
          trace_api::Scope other(w.spans[(seed >> 4) % kSpans]);
          m.severity = (int)sev;
          L.EmitLogRecord(std::move(rec), sev, body_value(), PairSpan(p.data(), p.size()));
        }
        break;
      }
    }
  }
  m.sys_after = std::chrono::system_clock::now().time_since_epoch().count();
  // Emit has returned: the caller reuses or frees its buffers
  ks.release();
  vs.overwrite_and_retain(w.retained);
  w.model[tag] = m;
}

void run_program(int idx, const TaskProg &t)
{
  TaskState ts;
  ts.idx = idx;
  ts.scopes.resize(kScopes);
  ts.tokens.resize(kScopes);
  ts.scope_span.assign(kScopes, -1);
  for (size_t oi = 0; oi < t.ops.size(); ++oi)
  {
    const Op &op = t.ops[oi];
    vsim::yield();
    switch (op.kind)
    {
      case OP_EMIT:
        do_emit(ts, op, (int64_t)(idx + 1) * 1000 + (int64_t)oi);
        break;
      case OP_GETLOGGER: {
        std::string lib = fmt("dyn-lib-t%d-%lld", idx, (long long)op.a);
        vsim::yield();
        {
          InOp io;
          ts.dyn = W->prov->GetLogger(fmt("dyn%d", idx), lib, "3.0");
        }
        ts.dyn_lib = lib;
        break;
      }
      case OP_SCOPE_BEGIN:
        if (!ts.scopes[op.b])
        {
          if (op.c & 1)
          {
            // a span object of its own that dies with the scope: the next one may get its
            // address (immediate-reuse allocator), with another identity
            nostd::shared_ptr<trace_api::Span> eph(
                new trace_api::DefaultSpan(W->spans[op.a % kSpans]->GetContext()));
            ts.scopes[op.b].reset(new trace_api::Scope(eph));
            vsim::probe("logs.ephemeral_span");
          }
          else
            ts.scopes[op.b].reset(new trace_api::Scope(W->spans[op.a % kSpans]));
          ts.scope_span[op.b] = (int)(op.a % kSpans);
          ts.active.push_back((int)(op.a % kSpans));
        }
        break;
      case OP_CTX_BEGIN:
        if (!ts.scopes[op.b] && !ts.tokens[op.b])
        {
          // the active "span" is a bare SpanContext stored under the span key
          auto sc = W->spans[op.a % kSpans]->GetContext();
          nostd::shared_ptr<trace_api::SpanContext> scp(new trace_api::SpanContext(sc));
          ts.tokens[op.b] = opentelemetry::context::RuntimeContext::Attach(
              opentelemetry::context::RuntimeContext::GetCurrent().SetValue(trace_api::kSpanKey, scp));
          ts.scope_span[op.b] = (int)(op.a % kSpans);
          ts.active.push_back((int)(op.a % kSpans));
          vsim::probe("logs.spancontext_in_context");
        }
        break;
      case OP_SCOPE_END:
        if ((ts.scopes[op.a] || ts.tokens[op.a]) && !ts.active.empty() &&
            ts.active.back() == ts.scope_span[op.a])
        {
          ts.scopes[op.a].reset();
          ts.tokens[op.a].reset();
          ts.active.pop_back();
        }
        break;
    }
  }
  for (size_t i = ts.scopes.size(); i-- > 0;)
  {
    ts.scopes[i].reset();
    ts.tokens[i].reset();
  }
}

void generate(const std::string &, Rng &wl, Rng &fl, Case &c)
{
  vsim::SimKnobs sk;
  sk.allow_call_points = true;
  sk.allow_cv_spurious = true;
  sk.faults_on         = fl.chance(0.4);
  sk.typical_len       = 500;
  int nproc            = (int)wl.range(1, 3);
  int layout           = (int)wl.below(1 << nproc);  // bit i: processor i is a batch processor
  c.set("nproc", nproc);
  c.set("prov_route", wl.chance(0.5) ? 0 : (int64_t)wl.range(1, 3));
  c.set("layout", layout);
  c.set("max_batch", wl.range(1, 4));
  static const int64_t delays[] = {1, 5, 100};
  c.set("delay_ms", wl.pick(delays));
  // string/array values through a deferred (batch) export are known finding F8: the majority
  // stratum keeps them scalar wherever a batch processor is present, so that everything else
  // is checked strictly there
  bool f8_stratum = layout != 0 && wl.chance(0.3);
  c.stratum       = layout == 0 ? "simple_only" : (f8_stratum ? "batch.nonscalar" : "batch.scalar");
  bool scalar_only = layout != 0 && !f8_stratum;
  c.set("scalar_only", scalar_only);
  static const int scalar_alts[] = {0, 1, 2, 3, 4, 13};
  int ntasks = (int)wl.range(1, 3);
  for (int t = 0; t < ntasks; ++t)
  {
    TaskProg p;
    int n = (int)wl.range(1, vsim::tier_scale() > 1 && wl.chance(0.5) ? 14 : 8);
    int nscope = 0;
    std::vector<int> open;
    for (int i = 0; i < n; ++i)
    {
      double r = wl.real();
      if (r < 0.2 && nscope < kScopes)
      {
        p.ops.push_back({wl.chance(0.25) ? OP_CTX_BEGIN : OP_SCOPE_BEGIN, (int64_t)wl.below(kSpans),
                         nscope, (int64_t)wl.chance(0.5), 0});
        open.push_back(nscope++);
      }
      else if (r < 0.3 && !open.empty())
      {
        p.ops.push_back({OP_SCOPE_END, open.back(), 0, 0, 0});
        open.pop_back();
      }
      else if (r < 0.38)
      {
        p.ops.push_back({OP_GETLOGGER, (int64_t)wl.below(3), 0, 0, 0});
      }
      else
      {
        int64_t form = (int64_t)wl.below(kForms);
        int64_t alt  = scalar_only ? scalar_alts[wl.below(6)] : (int64_t)wl.below(val::kAlts);
        int64_t aseed = (int64_t)(wl.next() >> 2);
        if (scalar_only)
        {
          // keep generated attribute values scalar too: pick a seed whose kvs are scalar
          for (int tries = 0; tries < 64; ++tries)
          {
            bool ok = true;
            for (auto &kv : val::gen_kvs((uint64_t)aseed, "a."))
              if (!val::is_scalar(kv.alt))
                ok = false;
            if (ok)
              break;
            aseed = (int64_t)(wl.next() >> 2);
          }
          bool ok = true;
          for (auto &kv : val::gen_kvs((uint64_t)aseed, "a."))
            if (!val::is_scalar(kv.alt))
              ok = false;
          if (!ok)
            aseed = 0;
          // forms whose body is a string_view by construction
          static const int64_t scalar_forms[] = {0, 2, 3, 4, 6, 7, 8, 10, 11, 12, 14, 15, 16, 17, 18, 21, 22};
          form = scalar_forms[wl.below(17)];
        }
        p.ops.push_back({OP_EMIT, form, alt, aseed, (int64_t)(wl.next() >> 2)});
      }
    }
    c.tasks.push_back(p);
  }
  vsim::draw_run_config(fl, sk, c.rc);
  // MultiRecordable fans setters out in an order that depends on processor addresses; with
  // several processors the number of function boundaries crossed before a harness yield is
  // therefore not a function of the run, so call-boundary preemption stays off in those runs
  if (c.knob("nproc", 1) > 1)
  {
    c.rc.call_period = 0;
    c.rc.p_call      = 0;
  }
  c.rc.budget1 = 30000;
}

void body(const Case &c)
{
  hist().clear();
  World w;
  W   = &w;
  w.c = &c;
  int nproc = (int)c.knob("nproc", 1), layout = (int)c.knob("layout", 0);
  w.got.resize(nproc + 2);
  w.nproc = nproc;
  for (int i = 0; i < kSpans; ++i)
  {
    uint8_t t[16] = {0xa0, (uint8_t)i, 3, 4, 5, 6, 7, 8, 9, 10, 11, 12, 13, 14, 15, 16};
    uint8_t s[8]  = {0xb0, (uint8_t)i, 3, 4, 5, 6, 7, 8};
    w.spans.push_back(nostd::shared_ptr<trace_api::Span>(new trace_api::DefaultSpan(
        trace_api::SpanContext(trace_api::TraceId(t), trace_api::SpanId(s),
                               trace_api::TraceFlags((uint8_t)(i & 1)), false))));
  }
  {
    std::vector<std::unique_ptr<sdklogs::LogRecordProcessor>> procs;
    for (int i = 0; i < nproc; ++i)
    {
      std::unique_ptr<sdklogs::LogRecordExporter> e(new CaptureExporter(i));
      bool batch = (layout >> i) & 1;
      w.is_batch.push_back(batch);
      if (batch)
      {
        sdklogs::BatchLogRecordProcessorOptions o;
        o.max_queue_size        = 64;
        o.max_export_batch_size = (size_t)c.knob("max_batch", 2);
        o.schedule_delay_millis = std::chrono::milliseconds(c.knob("delay_ms", 5));
        procs.emplace_back(new sdklogs::BatchLogRecordProcessor(std::move(e), o));
      }
      else
        procs.emplace_back(new sdklogs::SimpleLogRecordProcessor(std::move(e)));
    }
    auto cfg = std::make_unique<iscope::ScopeConfigurator<sdklogs::LoggerConfig>>(
        iscope::ScopeConfigurator<sdklogs::LoggerConfig>::Builder(sdklogs::LoggerConfig::Default())
            .AddConditionNameEquals("disabled-lib", sdklogs::LoggerConfig::Disabled())
            .Build());
    // every public way to the same pipeline: processor list, a single processor, a ready-made
    // context, processors added after construction
    std::unique_ptr<sdklogs::LoggerProvider> provp;
    auto res = Resource::Create({{"service.name", "vsim"}});
    switch ((int)c.knob("prov_route", 0))
    {
      case 1:
        if (procs.size() == 1)
        {
          provp.reset(new sdklogs::LoggerProvider(std::move(procs[0]), res, std::move(cfg)));
          break;
        }
        // fall through
      case 2: {
        std::unique_ptr<sdklogs::LoggerContext> cx(
            new sdklogs::LoggerContext(std::move(procs), res, std::move(cfg)));
        provp.reset(new sdklogs::LoggerProvider(std::move(cx)));
        break;
      }
      case 3: {
        std::vector<std::unique_ptr<sdklogs::LogRecordProcessor>> first;
        first.push_back(std::move(procs[0]));
        provp.reset(new sdklogs::LoggerProvider(std::move(first), res, std::move(cfg)));
        for (size_t i = 1; i < procs.size(); ++i)
          provp->AddProcessor(std::move(procs[i]));
        break;
      }
      default:
        provp.reset(new sdklogs::LoggerProvider(std::move(procs), res, std::move(cfg)));
    }
    sdklogs::LoggerProvider &prov = *provp;
    w.prov     = &prov;
    w.logger   = prov.GetLogger("main", "main-lib", "1.0");
    w.dlogger  = prov.GetLogger("off", "disabled-lib", "1.0");
    w.logger2  = prov.GetLogger("aux", "aux-lib", "2.0");
    w.scope2   = &static_cast<sdklogs::Logger *>(w.logger2.get())->GetInstrumentationScope();
    w.resource = &prov.GetResource();
    w.scope    = &static_cast<sdklogs::Logger *>(w.logger.get())->GetInstrumentationScope();
    run_tasks(c, [&](int i, const TaskProg &t) { run_program(i, t); });
    prov.ForceFlush();
    w.logger  = nostd::shared_ptr<logs_api::Logger>(nullptr);
    w.dlogger = nostd::shared_ptr<logs_api::Logger>(nullptr);
    w.logger2 = nostd::shared_ptr<logs_api::Logger>(nullptr);
  }
  // the provider is gone: every deferred export has happened; now the caller's memory may go
  for (auto &b : w.retained)
    free(b.p);
  w.retained.clear();
  // ------------------------------------------------------------------ oracle
  for (auto &kv : w.model)
  {
    const MRec &m = kv.second;
    for (int x = 0; x < nproc; ++x)
    {
      auto it  = w.got[x].find(m.tag);
      size_t n = it == w.got[x].end() ? 0 : it->second.size();
      if (!m.emitted)
      {
        if (n)
          vsim::report(m.disabled ? "C13.disabled_logger_emitted" : "C13.null_record_emitted",
                       fmt("record %lld (form %d) must not be emitted but reached exporter %d",
                           (long long)m.tag, m.form, x));
        continue;
      }
      if (n != 1)
      {
        vsim::report("C13.export_count",
                     fmt("record %lld (form %d) reached exporter %d %zu times", (long long)m.tag,
                         m.form, x, n));
        continue;
      }
      const Snap &g  = it->second[0];
      bool deferred  = w.is_batch[x];
      const char *px = deferred ? "batch" : "simple";
      if (g.severity != m.severity)
        vsim::report("C13.severity", fmt("record %lld (form %d): severity %d, expected %d",
                                         (long long)m.tag, m.form, g.severity, m.severity));
      if (g.ts != m.ts)
        vsim::report("C13.timestamp", fmt("record %lld (form %d): timestamp %lld, expected %lld",
                                          (long long)m.tag, m.form, (long long)g.ts,
                                          (long long)m.ts));
      if (g.event_id != m.event_id || g.event_name != m.event_name)
        vsim::report("C13.event_id", fmt("record %lld (form %d): event %lld/'%s', expected "
                                         "%lld/'%s'",
                                         (long long)m.tag, m.form, (long long)g.event_id,
                                         g.event_name.c_str(), (long long)m.event_id,
                                         m.event_name.c_str()));
      if (g.trace_id != m.trace_id || g.span_id != m.span_id || g.flags != m.flags)
        vsim::report("C13.correlation",
                     fmt("record %lld (form %d, task %d): identity %s/%s/%02x, expected %s/%s/%02x",
                         (long long)m.tag, m.form, m.task, g.trace_id.c_str(), g.span_id.c_str(),
                         g.flags, m.trace_id.c_str(), m.span_id.c_str(), m.flags));
      if (g.resource != w.resource)
        vsim::report("C13.resource", fmt("record %lld: resource is not the provider's",
                                         (long long)m.tag));
      if (!m.dyn_lib.empty())
      {
        if (g.scope_name != m.dyn_lib)
          vsim::report("C13.scope",
                       fmt("record %lld (task %d): emitted through the logger obtained for scope "
                           "'%s', exported with scope '%s'",
                           (long long)m.tag, m.task, m.dyn_lib.c_str(), g.scope_name.c_str()));
      }
      else if (g.scope != (m.second_logger ? w.scope2 : w.scope))
        vsim::report("C13.scope", fmt("record %lld: scope is not its logger's", (long long)m.tag));
      // the observed timestamp is taken when the record is created, inside the call
      if (g.observed_ts < m.sys_before || g.observed_ts > m.sys_after)
        vsim::report("C13.observed_timestamp",
                     fmt("record %lld (form %d): observed timestamp %lld is outside the Emit call "
                         "[%lld, %lld]",
                         (long long)m.tag, m.form, (long long)g.observed_ts,
                         (long long)m.sys_before, (long long)m.sys_after));
      // body
      if (g.body != m.body)
      {
        bool stale = deferred && m.body_alt >= 0 && !val::is_scalar(m.body_alt) &&
                     g.body == val::expect_marker(m.body_alt, m.body_seed);
        if (stale)
          vsim::report("C13.value_not_owned.body.batch",
                       fmt("record %lld (form %d): body alternative %d read the caller's "
                           "overwritten buffer at deferred export",
                           (long long)m.tag, m.form, m.body_alt));
        else
          vsim::report("C13.body", fmt("record %lld (form %d, %s): body '%s', expected '%s'",
                                       (long long)m.tag, m.form, px, g.body.substr(0, 60).c_str(),
                                       m.body.substr(0, 60).c_str()));
      }
      // attributes
      if (g.attrs.size() != m.attrs.size())
        vsim::report("C13.attribute_set",
                     fmt("record %lld (form %d): %zu attributes, expected %zu", (long long)m.tag,
                         m.form, g.attrs.size(), m.attrs.size()));
      for (auto &a : m.attrs)
      {
        auto ga = g.attrs.find(a.first);
        if (ga == g.attrs.end())
        {
          vsim::report("C13.attribute_set", fmt("record %lld (form %d): attribute '%s' missing",
                                                (long long)m.tag, m.form, a.first.c_str()));
          continue;
        }
        if (ga->second == a.second.expect)
          continue;
        bool stale = deferred && !val::is_scalar(a.second.alt) &&
                     ga->second == val::expect_marker(a.second.alt, a.second.seed);
        if (stale)
          vsim::report("C13.value_not_owned.attribute.batch",
                       fmt("record %lld (form %d): attribute '%s' alternative %d read the "
                           "caller's overwritten buffer at deferred export",
                           (long long)m.tag, m.form, a.first.c_str(), a.second.alt));
        else
          vsim::report("C13.attribute", fmt("record %lld (form %d, %s): attribute '%s' is '%s', "
                                            "expected '%s'",
                                            (long long)m.tag, m.form, px, a.first.c_str(),
                                            ga->second.substr(0, 60).c_str(),
                                            a.second.expect.substr(0, 60).c_str()));
      }
    }
  }
  for (int x = 0; x < nproc; ++x)
    for (auto &kv : w.got[x])
      if (!w.model.count(kv.first))
        vsim::report("C13.unknown_record", fmt("exporter %d received an unknown record", x));
  W = nullptr;
}

void check(const Case &, const vsim::RunResult &) {}

std::string describe_op(const Case &, int, const Op &op)
{
  static const char *forms[] = {"(Severity, attrs)",
                                "(Severity, string_view body, attrs)",
                                "(Severity, AttributeValue body, KeyValueIterable)",
                                "(AttributeValue body, std::map attrs)",
                                "(Severity, body, SystemTimestamp, attrs)",
                                "(EventId(id,name), body, attrs)",
                                "(SpanContext, Severity, attrs)",
                                "(TraceId, SpanId, TraceFlags, body, attrs)",
                                "(attrs, body, Severity)",
                                "(Severity, body1, body2, attrs)",
                                "CreateLogRecord + setters + EmitLogRecord(record)",
                                "EmitLogRecord(record, Severity, body, attrs)",
                                "EmitLogRecord(null record, ...)",
                                "disabled logger",
                                "(system_clock::time_point, Severity, attrs)",
                                "(SpanId only, Severity, attrs)",
                                "(EventId(id), Severity, attrs)",
                                "(Severity, attrs, second attrs overriding a key)",
                                "record created under one active span, emitted under another",
                                "Log(Severity, EventId, format, KeyValueIterable)",
                                "Log(Severity, int64 event id, format, KeyValueIterable)",
                                "Warn(body, attrs)",
                                "(Severity, body, SystemTimestamp, attrs) through a second logger"};
  switch (op.kind)
  {
    case OP_EMIT:
      return fmt("Emit form %lld %s body alternative %lld", (long long)op.a, forms[op.a % kForms],
                 (long long)op.b);
    case OP_SCOPE_BEGIN:
      return fmt("scope[%lld] = Scope(%sspan #%lld)", (long long)op.b,
                 (op.c & 1) ? "short-lived copy of " : "", (long long)op.a);
    case OP_SCOPE_END:
      return fmt("destroy scope[%lld]", (long long)op.a);
    case OP_GETLOGGER:
      return fmt("logger = provider.GetLogger(scope 'dyn-lib-t<task>-%lld'); half of the later Emits use it",
                 (long long)op.a);
    case OP_CTX_BEGIN:
      return fmt("scope[%lld] = Attach(current.SetValue(span key, shared_ptr<SpanContext> of span #%lld))",
                 (long long)op.b, (long long)op.a);
  }
  return "?";
}
std::string describe_fault(const Case &, const Fault &)
{
  return "";
}

const char *const kProps[] = {"C13", nullptr};
const std::pair<const char *, int64_t> kShrink[] = {{"nproc", 1}, {nullptr, 0}};
const char *const kReal[] = {"sdk/logs/logger.cc, logger_provider.cc, logger_context.cc",
                             "sdk/logs/read_write_log_record.cc",
                             "sdk/logs/multi_recordable.cc, multi_log_record_processor.cc",
                             "sdk/logs/simple_log_record_processor.cc, "
                             "batch_log_record_processor.cc",
                             "api/logs/logger.h, logger_type_traits.h, event_id.h",
                             "api/context/runtime_context.h, api/trace/scope.h",
                             "sdk/instrumentationscope/scope_configurator.h", nullptr};
const char *const kStub[] = {"LogRecordExporter (captures every getter of the record)",
                             "active spans are api DefaultSpan objects with fixed contexts", nullptr};
}  // namespace

namespace vsim
{
const EngineDesc g_engine = {
    "logs",
    kProps,
    generate,
    body,
    check,
    describe_op,
    describe_fault,
    kShrink,
    kReal,
    kStub,
    "one run = 1-3 processors (simple/batch mix behind the multi processor), 1-3 emitting tasks "
    "x 1-8 operations (Scope begin/end on the task's own stack; Emit in one of 23 argument "
    "forms: severity, string/AttributeValue body over all 16 alternatives, attributes as pair "
    "span / KeyValueIterable / std::map, timestamps, EventId with and without name, explicit "
    "SpanContext / TraceId+SpanId+TraceFlags / SpanId only, reversed order, two bodies, two "
    "attribute sources, CreateLogRecord+setters, null record, disabled logger, record created "
    "under one span and emitted under another); keys/names are overwritten and freed and values "
    "overwritten in place when Emit returns; every exporter's record is compared field by field "
    "with the model; distinct = distinct (workload hash, trace hash); non-trivial = >= 2 tasks "
    "and >= 1 context switch while a task was inside an Emit. The argument space is sampled by "
    "the generator, not searched."};
}
