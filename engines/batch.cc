// batch engine - C01, C02, C03: batch / simple / multi processors for spans
// and logs and the periodic metric reader, driven directly and through their
// providers, with stub exporters that record, stall, fail and sleep simulated
// time on a fault plan.
#include "harness.h"

#include "opentelemetry/logs/logger.h"
#include "opentelemetry/logs/severity.h"
#include "opentelemetry/sdk/common/global_log_handler.h"
#include "opentelemetry/sdk/logs/batch_log_record_processor.h"
#include "opentelemetry/sdk/logs/batch_log_record_processor_factory.h"
#include "opentelemetry/sdk/logs/batch_log_record_processor_runtime_options.h"
#include "opentelemetry/sdk/logs/batch_log_record_processor_options.h"
#include "opentelemetry/sdk/logs/exporter.h"
#include "opentelemetry/sdk/logs/logger_context.h"
#include "opentelemetry/sdk/logs/logger_provider.h"
#include "opentelemetry/sdk/logs/logger_provider_factory.h"
#include "opentelemetry/sdk/logs/read_write_log_record.h"
#include "opentelemetry/sdk/logs/simple_log_record_processor.h"
#include "opentelemetry/sdk/metrics/export/periodic_exporting_metric_reader.h"
#include "opentelemetry/sdk/metrics/export/periodic_exporting_metric_reader_factory.h"
#include "opentelemetry/sdk/metrics/export/periodic_exporting_metric_reader_runtime_options.h"
#include "opentelemetry/sdk/metrics/export/periodic_exporting_metric_reader_options.h"
#include "opentelemetry/sdk/metrics/meter_provider.h"
#include "opentelemetry/sdk/metrics/push_metric_exporter.h"
#include "opentelemetry/sdk/resource/resource.h"
#include "opentelemetry/sdk/trace/batch_span_processor.h"
#include "opentelemetry/sdk/trace/batch_span_processor_factory.h"
#include "opentelemetry/sdk/trace/batch_span_processor_runtime_options.h"
#include "opentelemetry/sdk/trace/batch_span_processor_options.h"
#include "opentelemetry/sdk/trace/exporter.h"
#include "opentelemetry/sdk/trace/simple_processor.h"
#include "opentelemetry/sdk/trace/span_data.h"
#include "opentelemetry/sdk/trace/tracer_context.h"
#include "opentelemetry/sdk/trace/tracer_provider.h"
#include "opentelemetry/sdk/trace/tracer_provider_factory.h"

using namespace hz;
namespace nostd    = opentelemetry::nostd;
namespace sdktrace = opentelemetry::sdk::trace;
namespace sdklogs  = opentelemetry::sdk::logs;
namespace sdkmet   = opentelemetry::sdk::metrics;
namespace sdkcommon = opentelemetry::sdk::common;
namespace ilog      = opentelemetry::sdk::common::internal_log;
using opentelemetry::sdk::resource::Resource;

namespace
{
// ----------------------------------------------------------------- vocabulary
enum WorldKind
{
  W_SPAN_DIRECT = 0,  // BatchSpanProcessor driven directly
  W_LOG_DIRECT,       // BatchLogRecordProcessor driven directly
  W_SPAN_PROVIDER,    // TracerProvider owning 1..2 processors
  W_LOG_PROVIDER,     // LoggerProvider owning 1..2 processors
  W_SPAN_SIMPLE,      // SimpleSpanProcessor driven directly from several tasks
  W_LOG_SIMPLE,       // SimpleLogRecordProcessor driven directly from several tasks
  W_PERIODIC          // MeterProvider + PeriodicExportingMetricReader
};
enum Role
{
  R_PRODUCER = 0,
  R_CONTROL  = 1
};
enum OpKind
{
  OP_PRODUCE = 1,  // a=k
  OP_FLUSH,        // a=timeout code, b=via (0 processor / reader, 1 provider)
  OP_SHUTDOWN,     // a=timeout code, b=via
  OP_SLEEP,        // a=ns
  OP_BARRIER       // a=barrier id
};
enum FaultKind
{
  F_EXPORT_FAIL = 1,
  F_EXPORT_SLOW,   // arg = ns
  F_EXPORT_STALL,  // held until every producer task has finished
  F_FLUSH_FAIL,
  F_FLUSH_SLOW,
  F_SHUTDOWN_FAIL,
  F_SHUTDOWN_SLOW
};
enum EvType
{
  E_PROD_INV = 1,   // a=p b=k
  E_PROD_RET,       // a=p b=k c=self points used d=self timer wakes
  E_EXPORT_ENTER,   // a=exporter b=call c=size
  E_EXPORTED,       // a=exporter b=p c=k (metrics: b=-1 c=decoded sum)
  E_EXPORT_EXIT,    // a=exporter b=call
  E_FLUSH_INV,      // a=op id b=via c=timeout code
  E_FLUSH_RET,      // a=op id b=result c=self points d=timer wakes
  E_SHUT_INV,       // a=op id b=via
  E_SHUT_RET,       // a=op id b=result c=self points d=timer wakes
  E_XFLUSH_ENTER,   // a=exporter
  E_XFLUSH_EXIT,
  E_XSHUT_ENTER,    // a=exporter
  E_XSHUT_EXIT,
  E_WARN_FULL,      // SDK warning "queue is full" on the calling task
  E_DESTROY_BEGIN,
  E_DESTROY_END
};

int64_t timeout_us(const Case &c, int code)
{
  switch (code)
  {
    case 0:
      return 0;  // the SDK treats zero as "no limit"
    case 1:
      return c.knob("to_small_us", 1000);
    case 2:
      return c.knob("to_large_us", 10000000);
    default:
      return std::chrono::microseconds::max().count();
  }
}

struct World;
World *W = nullptr;

// ------------------------------------------------------------ stub exporters
struct XCore
{
  int idx           = 0;
  bool behind_batch = true;
  int in_flight     = 0;
  int export_calls  = 0;
  int flush_calls   = 0;
  int shutdown_calls = 0;
  const Case *c     = nullptr;

  // a failing call may be one call or the state of the backend from that call on (arg == 1)
  static bool persistent(const Fault &f)
  {
    return f.arg == 1 &&
           (f.kind == F_EXPORT_FAIL || f.kind == F_FLUSH_FAIL || f.kind == F_SHUTDOWN_FAIL);
  }
  const Fault *find(int k1, int k2, int k3, int call) const
  {
    for (const Fault &f : c->faults)
      if (f.target == idx && (f.kind == k1 || f.kind == k2 || f.kind == k3) &&
          (f.at == call || (persistent(f) && call > f.at)))
        return &f;
    return nullptr;
  }
  sdkcommon::ExportResult do_export(const std::vector<std::pair<int64_t, int64_t>> &items);
  bool do_flush();
  bool do_shutdown();
};

struct World
{
  const Case *c = nullptr;
  int kind      = 0;
  std::vector<std::shared_ptr<XCore>> xs;
  // release of stalled exporters once the producers are done
  std::mutex m;
  std::condition_variable cv;
  int producers_left = 0;
  // barriers of the phase-structured stratum
  std::map<int64_t, int> barrier_count;
  int ntasks = 0;
  int next_op_id = 0;
};

sdkcommon::ExportResult XCore::do_export(const std::vector<std::pair<int64_t, int64_t>> &items)
{
  int call = export_calls++;
  ev(E_EXPORT_ENTER, idx, call, (int64_t)items.size());
  for (auto &it : items)
    ev(E_EXPORTED, idx, it.first, it.second);
  if (++in_flight > 1)
    vsim::report("C03.export_overlap",
                 fmt("exporter %d: Export entered while a previous Export was still running", idx));
  vsim::yield();
  int64_t lat = c->knob("export_latency_ns", 0);
  if (lat > 0)
    std::this_thread::sleep_for(std::chrono::nanoseconds(lat));
  sdkcommon::ExportResult res = sdkcommon::ExportResult::kSuccess;
  if (const Fault *f = find(F_EXPORT_FAIL, F_EXPORT_SLOW, F_EXPORT_STALL, call))
  {
    if (f->kind == F_EXPORT_FAIL)
    {
      vsim::probe("fault.export_fail");
      res = sdkcommon::ExportResult::kFailure;
    }
    else if (f->kind == F_EXPORT_SLOW)
    {
      vsim::probe("fault.export_slow");
      std::this_thread::sleep_for(std::chrono::nanoseconds(f->arg));
    }
    else if (behind_batch)
    {
      std::unique_lock<std::mutex> lk(W->m);
      if (W->producers_left > 0)
        vsim::probe("fault.export_stall");
      W->cv.wait(lk, [] { return W->producers_left <= 0; });
    }
  }
  vsim::yield();
  --in_flight;
  ev(E_EXPORT_EXIT, idx, call);
  return res;
}

bool XCore::do_flush()
{
  int call = flush_calls++;
  ev(E_XFLUSH_ENTER, idx, call);
  vsim::yield();
  bool res = true;
  if (const Fault *f = find(F_FLUSH_FAIL, F_FLUSH_SLOW, -1, call))
  {
    if (f->kind == F_FLUSH_FAIL)
    {
      vsim::probe("fault.flush_fail");
      res = false;
    }
    else
    {
      vsim::probe("fault.flush_slow");
      std::this_thread::sleep_for(std::chrono::nanoseconds(f->arg));
    }
  }
  ev(E_XFLUSH_EXIT, idx, call);
  return res;
}

bool XCore::do_shutdown()
{
  int call = shutdown_calls++;
  ev(E_XSHUT_ENTER, idx, call);
  vsim::yield();
  bool res = true;
  if (const Fault *f = find(F_SHUTDOWN_FAIL, F_SHUTDOWN_SLOW, -1, call))
  {
    if (f->kind == F_SHUTDOWN_FAIL)
    {
      vsim::probe("fault.shutdown_fail");
      res = false;
    }
    else
    {
      vsim::probe("fault.shutdown_slow");
      std::this_thread::sleep_for(std::chrono::nanoseconds(f->arg));
    }
  }
  ev(E_XSHUT_EXIT, idx, call);
  return res;
}

// span tags travel in the span name "p.k", log tags in the event id
std::string span_tag(int p, int k)
{
  return fmt("%d.%d", p, k);
}
bool parse_tag(const std::string &s, int64_t &p, int64_t &k)
{
  return sscanf(s.c_str(), "%ld.%ld", &p, &k) == 2;
}

class StubSpanExporter final : public sdktrace::SpanExporter
{
public:
  explicit StubSpanExporter(std::shared_ptr<XCore> x) : x_(std::move(x)) {}
  std::unique_ptr<sdktrace::Recordable> MakeRecordable() noexcept override
  {
    hz::HarnessCode hc_;
    return std::unique_ptr<sdktrace::Recordable>(new sdktrace::SpanData);
  }
  sdkcommon::ExportResult Export(
      const nostd::span<std::unique_ptr<sdktrace::Recordable>> &spans) noexcept override
  {
    hz::HarnessCode hc_;
    std::vector<std::pair<int64_t, int64_t>> items;
    for (auto &r : spans)
    {
      int64_t p = -2, k = -2;
      if (r)
      {
        auto *sd = static_cast<sdktrace::SpanData *>(r.get());
        parse_tag(std::string(sd->GetName()), p, k);
      }
      items.emplace_back(p, k);
    }
    return x_->do_export(items);
  }
  bool ForceFlush(std::chrono::microseconds) noexcept override { hz::HarnessCode hc_; return x_->do_flush(); }
  bool Shutdown(std::chrono::microseconds) noexcept override { hz::HarnessCode hc_; return x_->do_shutdown(); }

private:
  std::shared_ptr<XCore> x_;
};

class StubLogExporter final : public sdklogs::LogRecordExporter
{
public:
  explicit StubLogExporter(std::shared_ptr<XCore> x) : x_(std::move(x)) {}
  std::unique_ptr<sdklogs::Recordable> MakeRecordable() noexcept override
  {
    hz::HarnessCode hc_;
    return std::unique_ptr<sdklogs::Recordable>(new sdklogs::ReadWriteLogRecord);
  }
  sdkcommon::ExportResult Export(
      const nostd::span<std::unique_ptr<sdklogs::Recordable>> &records) noexcept override
  {
    hz::HarnessCode hc_;
    std::vector<std::pair<int64_t, int64_t>> items;
    for (auto &r : records)
    {
      int64_t p = -2, k = -2;
      if (r)
      {
        auto *lr  = static_cast<sdklogs::ReadWriteLogRecord *>(r.get());
        int64_t t = lr->GetEventId();
        p         = t / 1000;
        k         = t % 1000;
      }
      items.emplace_back(p, k);
    }
    return x_->do_export(items);
  }
  bool ForceFlush(std::chrono::microseconds) noexcept override { hz::HarnessCode hc_; return x_->do_flush(); }
  bool Shutdown(std::chrono::microseconds) noexcept override { hz::HarnessCode hc_; return x_->do_shutdown(); }

private:
  std::shared_ptr<XCore> x_;
};

class StubMetricExporter final : public sdkmet::PushMetricExporter
{
public:
  explicit StubMetricExporter(std::shared_ptr<XCore> x) : x_(std::move(x)) {}
  sdkcommon::ExportResult Export(const sdkmet::ResourceMetrics &data) noexcept override
  {
    hz::HarnessCode hc_;
    // one counter, one series: report its cumulative sum (base-4 coded)
    std::vector<std::pair<int64_t, int64_t>> items;
    int64_t sum = 0;
    for (auto &sm : data.scope_metric_data_)
      for (auto &md : sm.metric_data_)
        for (auto &pd : md.point_data_attr_)
          if (nostd::holds_alternative<sdkmet::SumPointData>(pd.point_data))
          {
            auto &sp = nostd::get<sdkmet::SumPointData>(pd.point_data);
            if (nostd::holds_alternative<int64_t>(sp.value_))
              sum += nostd::get<int64_t>(sp.value_);
            else
              sum += (int64_t)nostd::get<double>(sp.value_);
          }
    items.emplace_back(-1, sum);
    return x_->do_export(items);
  }
  sdkmet::AggregationTemporality GetAggregationTemporality(
      sdkmet::InstrumentType) const noexcept override
  {
    hz::HarnessCode hc_;
    return sdkmet::AggregationTemporality::kCumulative;
  }
  bool ForceFlush(std::chrono::microseconds) noexcept override { hz::HarnessCode hc_; return x_->do_flush(); }
  bool Shutdown(std::chrono::microseconds) noexcept override { hz::HarnessCode hc_; return x_->do_shutdown(); }

private:
  std::shared_ptr<XCore> x_;
};

class CaptureLogHandler final : public ilog::LogHandler
{
public:
  void Handle(ilog::LogLevel,
              const char *,
              int,
              const char *msg,
              const sdkcommon::AttributeMap &) noexcept override
  {
    hz::HarnessCode hc_;
    if (msg && strstr(msg, "queue is full"))
      ev(E_WARN_FULL);
  }
};

// ------------------------------------------------------------------ pipelines
struct Pipeline
{
  virtual ~Pipeline() {}
  virtual void produce(int p, int k)             = 0;
  virtual bool flush(int64_t to_us, int via)     = 0;
  virtual bool shutdown(int64_t to_us, int via)  = 0;
};

std::shared_ptr<XCore> new_core(World &w, bool behind_batch)
{
  auto x          = std::make_shared<XCore>();
  x->idx          = (int)w.xs.size();
  x->behind_batch = behind_batch;
  x->c            = w.c;
  w.xs.push_back(x);
  return x;
}

sdktrace::BatchSpanProcessorOptions span_opts(const Case &c)
{
  sdktrace::BatchSpanProcessorOptions o;
  o.max_queue_size        = (size_t)c.knob("max_queue", 4);
  o.max_export_batch_size = (size_t)c.knob("max_batch", 2);
  o.schedule_delay_millis = std::chrono::milliseconds(c.knob("delay_ms", 5));
  return o;
}
sdklogs::BatchLogRecordProcessorOptions log_opts(const Case &c)
{
  sdklogs::BatchLogRecordProcessorOptions o;
  o.max_queue_size        = (size_t)c.knob("max_queue", 4);
  o.max_export_batch_size = (size_t)c.knob("max_batch", 2);
  o.schedule_delay_millis = std::chrono::milliseconds(c.knob("delay_ms", 5));
  return o;
}

// Every public construction route must honour the same options (knob ctor):
// 0 (exporter, options)  1 (exporter, options, runtime options)  2 factory(options)
// 3 factory(options, runtime options)  4 logs only: positional (queue, delay, batch)
std::unique_ptr<sdktrace::SpanProcessor> make_batch_span(const Case &c,
                                                         std::unique_ptr<sdktrace::SpanExporter> e)
{
  sdktrace::BatchSpanProcessorRuntimeOptions rt;
  switch ((int)c.knob("ctor", 0))
  {
    case 1:
      return std::unique_ptr<sdktrace::SpanProcessor>(
          new sdktrace::BatchSpanProcessor(std::move(e), span_opts(c), rt));
    case 2:
      return sdktrace::BatchSpanProcessorFactory::Create(std::move(e), span_opts(c));
    case 3:
      return sdktrace::BatchSpanProcessorFactory::Create(std::move(e), span_opts(c), rt);
    default:
      return std::unique_ptr<sdktrace::SpanProcessor>(
          new sdktrace::BatchSpanProcessor(std::move(e), span_opts(c)));
  }
}
std::unique_ptr<sdklogs::LogRecordProcessor> make_batch_log(
    const Case &c,
    std::unique_ptr<sdklogs::LogRecordExporter> e)
{
  sdklogs::BatchLogRecordProcessorRuntimeOptions rt;
  auto o = log_opts(c);
  switch ((int)c.knob("ctor", 0))
  {
    case 1:
      return std::unique_ptr<sdklogs::LogRecordProcessor>(
          new sdklogs::BatchLogRecordProcessor(std::move(e), o, rt));
    case 2:
      return sdklogs::BatchLogRecordProcessorFactory::Create(std::move(e), o);
    case 3:
      return sdklogs::BatchLogRecordProcessorFactory::Create(std::move(e), o, rt);
    case 4:
      return std::unique_ptr<sdklogs::LogRecordProcessor>(new sdklogs::BatchLogRecordProcessor(
          std::move(e), o.max_queue_size, o.schedule_delay_millis, o.max_export_batch_size));
    default:
      return std::unique_ptr<sdklogs::LogRecordProcessor>(
          new sdklogs::BatchLogRecordProcessor(std::move(e), o));
  }
}

struct SpanDirect : Pipeline
{
  std::unique_ptr<sdktrace::SpanProcessor> proc;
  SpanDirect(World &w, bool simple)
  {
    auto x = new_core(w, !simple);
    std::unique_ptr<sdktrace::SpanExporter> e(new StubSpanExporter(x));
    if (simple)
      proc.reset(new sdktrace::SimpleSpanProcessor(std::move(e)));
    else
      proc = make_batch_span(*w.c, std::move(e));
  }
  void produce(int p, int k) override
  {
    auto r = proc->MakeRecordable();
    r->SetName(span_tag(p, k));
    proc->OnEnd(std::move(r));
  }
  bool flush(int64_t to, int) override { return proc->ForceFlush(std::chrono::microseconds(to)); }
  bool shutdown(int64_t to, int) override { return proc->Shutdown(std::chrono::microseconds(to)); }
};

struct LogDirect : Pipeline
{
  std::unique_ptr<sdklogs::LogRecordProcessor> proc;
  LogDirect(World &w, bool simple)
  {
    auto x = new_core(w, !simple);
    std::unique_ptr<sdklogs::LogRecordExporter> e(new StubLogExporter(x));
    if (simple)
      proc.reset(new sdklogs::SimpleLogRecordProcessor(std::move(e)));
    else
      proc = make_batch_log(*w.c, std::move(e));
  }
  void produce(int p, int k) override
  {
    auto r = proc->MakeRecordable();
    r->SetEventId(p * 1000 + k, "");
    proc->OnEmit(std::move(r));
  }
  bool flush(int64_t to, int) override { return proc->ForceFlush(std::chrono::microseconds(to)); }
  bool shutdown(int64_t to, int) override { return proc->Shutdown(std::chrono::microseconds(to)); }
};

// processor layout of provider worlds: bit i of `layout` = processor i is simple
struct SpanProvider : Pipeline
{
  std::unique_ptr<sdktrace::TracerProvider> prov;
  nostd::shared_ptr<opentelemetry::trace::Tracer> tracer;
  SpanProvider(World &w)
  {
    int n      = (int)w.c->knob("nproc", 1);
    int layout = (int)w.c->knob("layout", 0);
    std::vector<std::unique_ptr<sdktrace::SpanProcessor>> procs;
    for (int i = 0; i < n; ++i)
    {
      bool simple = (layout >> i) & 1;
      auto x      = new_core(w, !simple);
      std::unique_ptr<sdktrace::SpanExporter> e(new StubSpanExporter(x));
      if (simple)
        procs.emplace_back(new sdktrace::SimpleSpanProcessor(std::move(e)));
      else
        procs.emplace_back(make_batch_span(*w.c, std::move(e)));
    }
    std::unique_ptr<sdktrace::SpanProcessor> later;
    if (w.c->knob("add_later", 0) && procs.size() > 1)
    {
      later = std::move(procs.back());
      procs.pop_back();
    }
    // every public way to a provider: processor-list / single-processor constructors, a
    // ready-made context, the factory overloads; and processors added afterwards
    switch ((int)w.c->knob("prov_route", 0))
    {
      case 1:
        if (procs.size() == 1)
        {
          prov.reset(new sdktrace::TracerProvider(std::move(procs[0]), Resource::GetEmpty()));
          break;
        }
        // fall through
      case 2: {
        std::unique_ptr<sdktrace::TracerContext> cx(
            new sdktrace::TracerContext(std::move(procs), Resource::GetEmpty()));
        prov.reset(new sdktrace::TracerProvider(std::move(cx)));
        break;
      }
      case 3:
        if (procs.size() == 1)
          prov = sdktrace::TracerProviderFactory::Create(std::move(procs[0]), Resource::GetEmpty());
        else
          prov = sdktrace::TracerProviderFactory::Create(std::move(procs), Resource::GetEmpty());
        break;
      case 4: {
        // an empty provider, every processor added afterwards
        std::vector<std::unique_ptr<sdktrace::SpanProcessor>> none;
        prov.reset(new sdktrace::TracerProvider(std::move(none), Resource::GetEmpty()));
        for (auto &pr : procs)
          prov->AddProcessor(std::move(pr));
        break;
      }
      default:
        prov.reset(new sdktrace::TracerProvider(std::move(procs), Resource::GetEmpty()));
    }
    if (later)
      prov->AddProcessor(std::move(later));
    tracer = prov->GetTracer("vsim");
    tracer = prov->GetTracer("vsim");  // second request for the same scope (not judged here: C19)
  }
  void produce(int p, int k) override
  {
    auto s = tracer->StartSpan(span_tag(p, k));
    s->End();
  }
  bool flush(int64_t to, int) override { return prov->ForceFlush(std::chrono::microseconds(to)); }
  bool shutdown(int64_t to, int) override { return prov->Shutdown(std::chrono::microseconds(to)); }
};

struct LogProvider : Pipeline
{
  std::unique_ptr<sdklogs::LoggerProvider> prov;
  nostd::shared_ptr<opentelemetry::logs::Logger> logger;
  LogProvider(World &w)
  {
    int n      = (int)w.c->knob("nproc", 1);
    int layout = (int)w.c->knob("layout", 0);
    std::vector<std::unique_ptr<sdklogs::LogRecordProcessor>> procs;
    for (int i = 0; i < n; ++i)
    {
      bool simple = (layout >> i) & 1;
      auto x      = new_core(w, !simple);
      std::unique_ptr<sdklogs::LogRecordExporter> e(new StubLogExporter(x));
      if (simple)
        procs.emplace_back(new sdklogs::SimpleLogRecordProcessor(std::move(e)));
      else
        procs.emplace_back(make_batch_log(*w.c, std::move(e)));
    }
    std::unique_ptr<sdklogs::LogRecordProcessor> later;
    if (w.c->knob("add_later", 0) && procs.size() > 1)
    {
      later = std::move(procs.back());
      procs.pop_back();
    }
    switch ((int)w.c->knob("prov_route", 0))
    {
      case 1:
        if (procs.size() == 1)
        {
          prov.reset(new sdklogs::LoggerProvider(std::move(procs[0]), Resource::GetEmpty()));
          break;
        }
        // fall through
      case 2: {
        std::unique_ptr<sdklogs::LoggerContext> cx(
            new sdklogs::LoggerContext(std::move(procs), Resource::GetEmpty()));
        prov.reset(new sdklogs::LoggerProvider(std::move(cx)));
        break;
      }
      case 3:
        if (procs.size() == 1)
          prov = sdklogs::LoggerProviderFactory::Create(std::move(procs[0]), Resource::GetEmpty());
        else
          prov = sdklogs::LoggerProviderFactory::Create(std::move(procs), Resource::GetEmpty());
        break;
      case 4: {
        prov.reset(new sdklogs::LoggerProvider());
        for (auto &pr : procs)
          prov->AddProcessor(std::move(pr));
        break;
      }
      default:
        prov.reset(new sdklogs::LoggerProvider(std::move(procs), Resource::GetEmpty()));
    }
    if (later)
      prov->AddProcessor(std::move(later));
    logger = prov->GetLogger("vsim", "vsim");
  }
  void produce(int p, int k) override
  {
    auto r = logger->CreateLogRecord();
    if (r)
    {
      r->SetEventId(p * 1000 + k, "");
      logger->EmitLogRecord(std::move(r));
    }
  }
  bool flush(int64_t to, int) override { return prov->ForceFlush(std::chrono::microseconds(to)); }
  bool shutdown(int64_t to, int) override { return prov->Shutdown(std::chrono::microseconds(to)); }
};

struct Periodic : Pipeline
{
  std::unique_ptr<sdkmet::MeterProvider> prov;
  std::vector<std::shared_ptr<sdkmet::MetricReader>> readers;
  nostd::shared_ptr<opentelemetry::metrics::Meter> meter;
  nostd::unique_ptr<opentelemetry::metrics::Counter<uint64_t>> counter;
  Periodic(World &w)
  {
    prov.reset(new sdkmet::MeterProvider());
    int n = (int)w.c->knob("nproc", 1);
    for (int i = 0; i < n; ++i)
    {
      auto x = new_core(w, false);
      std::unique_ptr<sdkmet::PushMetricExporter> e(new StubMetricExporter(x));
      sdkmet::PeriodicExportingMetricReaderOptions o;
      o.export_interval_millis = std::chrono::milliseconds(w.c->knob("interval_ms", 1000));
      o.export_timeout_millis  = std::chrono::milliseconds(w.c->knob("timeout_ms", 500));
      std::shared_ptr<sdkmet::MetricReader> r;
      sdkmet::PeriodicExportingMetricReaderRuntimeOptions rt;
      switch ((int)w.c->knob("ctor", 0))
      {
        case 1:
          r.reset(new sdkmet::PeriodicExportingMetricReader(std::move(e), o, rt));
          break;
        case 2:
          r = sdkmet::PeriodicExportingMetricReaderFactory::Create(std::move(e), o);
          break;
        case 3:
          r = sdkmet::PeriodicExportingMetricReaderFactory::Create(std::move(e), o, rt);
          break;
        default:
          r.reset(new sdkmet::PeriodicExportingMetricReader(std::move(e), o));
      }
      readers.push_back(r);
      prov->AddMetricReader(r);
    }
    meter   = prov->GetMeter("vsim");
    counter = meter->CreateUInt64Counter("c");
  }
  // measurement (p, k) adds 4^(p*8+k): every measurement is one base-4 digit of the sum
  void produce(int p, int k) override { counter->Add((uint64_t)1 << (2 * (p * 8 + k))); }
  bool flush(int64_t to, int via) override
  {
    if (via == 1)
      return prov->ForceFlush(std::chrono::microseconds(to));
    return readers[0]->ForceFlush(std::chrono::microseconds(to));
  }
  bool shutdown(int64_t to, int) override { return prov->Shutdown(std::chrono::microseconds(to)); }
};

// ------------------------------------------------------------------- the run
void barrier(World &w, int64_t id)
{
  std::unique_lock<std::mutex> lk(w.m);
  int &n = w.barrier_count[id];
  ++n;
  w.cv.notify_all();
  w.cv.wait(lk, [&] { return w.barrier_count[id] >= w.ntasks; });
}

void run_program(World &w, Pipeline &pl, int idx, const TaskProg &t)
{
  for (const Op &op : t.ops)
  {
    vsim::yield();
    switch (op.kind)
    {
      case OP_PRODUCE: {
        uint64_t p0 = vsim::self_points(), t0 = vsim::self_timer_wakes();
        ev(E_PROD_INV, idx, op.a);
        {
          InOp io;
          pl.produce(idx, (int)op.a);
        }
        ev(E_PROD_RET, idx, op.a, (int64_t)(vsim::self_points() - p0),
           (int64_t)(vsim::self_timer_wakes() - t0));
        break;
      }
      case OP_FLUSH: {
        int id      = w.next_op_id++;
        uint64_t p0 = vsim::self_points(), t0 = vsim::self_timer_wakes();
        ev(E_FLUSH_INV, id, op.b, op.a);
        bool r;
        {
          InOp io;
          r = pl.flush(timeout_us(*w.c, (int)op.a), (int)op.b);
        }
        ev(E_FLUSH_RET, id, r, (int64_t)(vsim::self_points() - p0),
           (int64_t)(vsim::self_timer_wakes() - t0));
        break;
      }
      case OP_SHUTDOWN: {
        int id      = w.next_op_id++;
        uint64_t p0 = vsim::self_points(), t0 = vsim::self_timer_wakes();
        ev(E_SHUT_INV, id, op.b);
        bool r;
        {
          InOp io;
          r = pl.shutdown(timeout_us(*w.c, (int)op.a), (int)op.b);
        }
        ev(E_SHUT_RET, id, r, (int64_t)(vsim::self_points() - p0),
           (int64_t)(vsim::self_timer_wakes() - t0));
        break;
      }
      case OP_SLEEP:
        std::this_thread::sleep_for(std::chrono::nanoseconds(op.a));
        break;
      case OP_BARRIER:
        barrier(w, op.a);
        break;
      default:
        break;
    }
  }
  if (t.role == R_PRODUCER)
  {
    std::unique_lock<std::mutex> lk(w.m);
    --w.producers_left;
    w.cv.notify_all();
  }
}

void body(const Case &c)
{
  hist().clear();
  ilog::GlobalLogHandler::SetLogHandler(
      nostd::shared_ptr<ilog::LogHandler>(new CaptureLogHandler));
  ilog::GlobalLogHandler::SetLogLevel(ilog::LogLevel::Warning);
  World w;
  W        = &w;
  w.c      = &c;
  w.kind   = (int)c.knob("world", 0);
  w.ntasks = (int)c.tasks.size();
  for (auto &t : c.tasks)
    if (t.role == R_PRODUCER)
      w.producers_left++;
  {
    std::unique_ptr<Pipeline> pl;
    switch (w.kind)
    {
      case W_SPAN_DIRECT:
        pl.reset(new SpanDirect(w, false));
        break;
      case W_LOG_DIRECT:
        pl.reset(new LogDirect(w, false));
        break;
      case W_SPAN_PROVIDER:
        pl.reset(new SpanProvider(w));
        break;
      case W_LOG_PROVIDER:
        pl.reset(new LogProvider(w));
        break;
      case W_SPAN_SIMPLE:
        pl.reset(new SpanDirect(w, true));
        break;
      case W_LOG_SIMPLE:
        pl.reset(new LogDirect(w, true));
        break;
      default:
        pl.reset(new Periodic(w));
        break;
    }
    run_tasks(c, [&](int i, const TaskProg &t) { run_program(w, *pl, i, t); });
    // destruction is part of the run: it is a Shutdown caller of its own
    ev(E_DESTROY_BEGIN);
    {
      InOp io;
      pl.reset();
    }
    ev(E_DESTROY_END);
  }
  ilog::GlobalLogHandler::SetLogHandler(
      nostd::shared_ptr<ilog::LogHandler>(new ilog::NoopLogHandler));
  W = nullptr;
  // keep the exporter cores for the oracle
  static std::vector<std::shared_ptr<XCore>> keep;
  keep = w.xs;
}

// ------------------------------------------------------------------- oracle
struct Rec
{
  size_t inv = 0, ret = 0;
  bool returned = false;
  bool warned   = false;  // "queue is full" during the call
  int64_t pts = 0, timers = 0;
};
struct CallRec
{
  int id = 0;
  size_t inv = 0, ret = 0;
  bool returned = false;
  int result    = 0;
  int via       = 0;
  int to_code   = 0;
  int64_t pts = 0, timers = 0;
  bool is_destroy = false;
};

void report_for(const Case &c, const std::string &cls, const std::string &detail)
{
  // a check never reports under another property's id
  if (cls.compare(0, 3, c.prop) == 0)
    vsim::report(cls, detail);
  else
    vsim::probe("other_property_class_seen");
}

void check(const Case &c, const vsim::RunResult &)
{
  const auto &H = hist();
  int world     = (int)c.knob("world", 0);
  bool metrics  = world == W_PERIODIC;
  bool simple_world = world == W_SPAN_SIMPLE || world == W_LOG_SIMPLE;
  bool span_world   = world == W_SPAN_DIRECT || world == W_SPAN_PROVIDER || world == W_SPAN_SIMPLE;
  int nproc     = (world == W_SPAN_PROVIDER || world == W_LOG_PROVIDER || metrics)
                      ? (int)c.knob("nproc", 1)
                      : 1;
  int layout    = (world == W_SPAN_PROVIDER || world == W_LOG_PROVIDER) ? (int)c.knob("layout", 0)
                                                                          : (simple_world ? 1 : 0);
  int64_t max_queue = c.knob("max_queue", 4), max_batch = c.knob("max_batch", 2);
  bool phase = c.stratum.find("phase") != std::string::npos;

  std::map<std::pair<int64_t, int64_t>, Rec> recs;
  std::vector<CallRec> flushes, shuts;
  std::map<int, size_t> open_prod;  // task -> index of its open produce call
  for (size_t i = 0; i < H.size(); ++i)
  {
    const Ev &e = H[i];
    switch (e.type)
    {
      case E_PROD_INV:
        recs[{e.a, e.b}].inv = i;
        open_prod[e.task]    = i;
        break;
      case E_PROD_RET: {
        Rec &r     = recs[{e.a, e.b}];
        r.ret      = i;
        r.returned = true;
        r.pts      = e.c;
        r.timers   = e.d;
        open_prod.erase(e.task);
        break;
      }
      case E_WARN_FULL: {
        auto it = open_prod.find(e.task);
        if (it != open_prod.end())
        {
          const Ev &pi = H[it->second];
          recs[{pi.a, pi.b}].warned = true;
        }
        break;
      }
      case E_FLUSH_INV: {
        CallRec f;
        f.id      = (int)e.a;
        f.inv     = i;
        f.via     = (int)e.b;
        f.to_code = (int)e.c;
        flushes.push_back(f);
        break;
      }
      case E_FLUSH_RET:
        for (auto &f : flushes)
          if (f.id == e.a)
          {
            f.ret      = i;
            f.returned = true;
            f.result   = (int)e.b;
            f.pts      = e.c;
            f.timers   = e.d;
          }
        break;
      case E_SHUT_INV: {
        CallRec s;
        s.id  = (int)e.a;
        s.inv = i;
        s.via = (int)e.b;
        shuts.push_back(s);
        break;
      }
      case E_SHUT_RET:
        for (auto &s : shuts)
          if (s.id == e.a)
          {
            s.ret      = i;
            s.returned = true;
            s.result   = (int)e.b;
            s.pts      = e.c;
            s.timers   = e.d;
          }
        break;
      case E_DESTROY_BEGIN: {
        CallRec s;
        s.id         = -1;
        s.inv        = i;
        s.is_destroy = true;
        shuts.push_back(s);
        break;
      }
      case E_DESTROY_END:
        for (auto &s : shuts)
          if (s.is_destroy)
          {
            s.ret      = i;
            s.returned = true;
            s.result   = 1;
          }
        break;
      default:
        break;
    }
  }
  for (auto &f : flushes)
    if (!f.returned)
      report_for(c, "C02.liveness.flush_never_returned", "a ForceFlush call never returned");
  for (auto &s : shuts)
    if (!s.returned)
      report_for(c, "C02.liveness.shutdown_never_returned", "a Shutdown call never returned");

  size_t first_shut_inv = SIZE_MAX, first_shut_ret = SIZE_MAX;
  for (auto &s : shuts)
  {
    first_shut_inv = std::min(first_shut_inv, s.inv);
    if (s.returned)
      first_shut_ret = std::min(first_shut_ret, s.ret);
  }

  for (int x = 0; x < nproc; ++x)
  {
    bool is_simple = (layout >> x) & 1;
    bool is_batch  = !is_simple && !metrics;
    // ---- per exporter: export calls
    struct ExpCall
    {
      size_t enter = 0, exit = SIZE_MAX;
      int64_t size = 0;
      std::vector<std::pair<int64_t, int64_t>> items;
    };
    std::vector<ExpCall> calls;
    std::vector<size_t> xflush_enter, xflush_exit, xshut_enter;
    for (size_t i = 0; i < H.size(); ++i)
    {
      const Ev &e = H[i];
      if (e.a != x)
        continue;
      if (e.type == E_EXPORT_ENTER)
      {
        ExpCall ec;
        ec.enter = i;
        ec.size  = e.c;
        calls.push_back(ec);
      }
      else if (e.type == E_EXPORTED && !calls.empty())
        calls.back().items.emplace_back(e.b, e.c);
      else if (e.type == E_EXPORT_EXIT && !calls.empty())
        calls.back().exit = i;
      else if (e.type == E_XFLUSH_ENTER)
        xflush_enter.push_back(i);
      else if (e.type == E_XFLUSH_EXIT)
        xflush_exit.push_back(i);
      else if (e.type == E_XSHUT_ENTER)
        xshut_enter.push_back(i);
    }

    // ---- C03: batch bounds (overlap is an in-run invariant)
    if (is_batch)
      for (auto &ec : calls)
      {
        if (ec.size == 0)
          report_for(c, "C03.empty_batch", fmt("exporter %d received an empty batch", x));
        if (ec.size > max_batch)
          report_for(c, "C03.batch_too_large",
                     fmt("exporter %d received a batch of %lld records, max_export_batch_size=%lld",
                         x, (long long)ec.size, (long long)max_batch));
        if (ec.size == max_batch)
          vsim::probe("batch.full_batch");
      }

    // ---- exporter shutdown exactly once at the end of the run
    if (!metrics)
    {
      if (xshut_enter.size() != 1)
        report_for(c, "C02.exporter_shutdown_count",
                   fmt("exporter %d: Shutdown invoked %zu times over the life of the %s", x,
                       xshut_enter.size(), is_simple ? "simple processor" : "batch processor"));
    }
    // ---- nothing reaches the exporter after Shutdown returned
    // Batch processors serialise Shutdown callers (shutdown_m), so any returned call
    // means the work is complete. MeterContext latches instead: a second caller returns
    // at once while the first is still shutting the readers down, so for a periodic
    // reader "its Shutdown has returned" is the return of the call that performed the
    // exporter's Shutdown (same task, entry inside the call).
    size_t shut_ret_x = first_shut_ret;
    if (metrics)
    {
      shut_ret_x = SIZE_MAX;
      if (!xshut_enter.empty())
      {
        size_t xi = xshut_enter[0];
        for (auto &s : shuts)
          if (s.returned && s.inv < xi && xi < s.ret &&
              (s.is_destroy ? H[xi].task == 0 : H[s.inv].task == H[xi].task))
            shut_ret_x = std::min(shut_ret_x, s.ret);
      }
    }
    if (shut_ret_x != SIZE_MAX && (is_batch || metrics))
    {
      for (auto &ec : calls)
        if (ec.enter > shut_ret_x)
          report_for(c, "C02.export_after_shutdown",
                     fmt("exporter %d: Export entered after Shutdown had returned", x));
      if (is_batch)
      {
        for (size_t i : xflush_enter)
          if (i > first_shut_ret)
            report_for(c, "C02.exporter_call_after_shutdown",
                       fmt("exporter %d: ForceFlush entered after Shutdown had returned", x));
        for (size_t i : xshut_enter)
          if (i > first_shut_ret)
            report_for(c, "C02.exporter_call_after_shutdown",
                       fmt("exporter %d: Shutdown entered after Shutdown had returned", x));
      }
    }

    if (metrics)
    {
      // cumulative sums: digit d of the base-4 sum = how often measurement d is contained
      auto contains_all = [&](int64_t sum, size_t before_inv, std::string &why) {
        for (auto &kv : recs)
        {
          int d       = (int)(kv.first.first * 8 + kv.first.second);
          int digit   = (int)((sum >> (2 * d)) & 3);
          if (digit > 1)
          {
            why = fmt("measurement (%lld,%lld) counted %d times", (long long)kv.first.first,
                      (long long)kv.first.second, digit);
            return -1;
          }
          if (kv.second.returned && kv.second.ret < before_inv && digit != 1)
          {
            why = fmt("measurement (%lld,%lld) recorded before the call is missing",
                      (long long)kv.first.first, (long long)kv.first.second);
            return 0;
          }
        }
        return 1;
      };
      for (auto &ec : calls)
      {
        std::string why;
        if (!ec.items.empty() && contains_all(ec.items[0].second, 0, why) < 0)
          report_for(c, "C02.metrics_duplicate", fmt("exporter %d: %s", x, why.c_str()));
        // nothing that was invoked after the export was entered may be inside
        for (auto &kv : recs)
        {
          int d = (int)(kv.first.first * 8 + kv.first.second);
          if (!ec.items.empty() && ((ec.items[0].second >> (2 * d)) & 3) && kv.second.inv > ec.enter)
            report_for(c, "C02.metrics_from_future",
                       fmt("exporter %d: export contains a measurement invoked later", x));
        }
      }
      for (auto &f : flushes)
      {
        if (!f.returned || !f.result)
          continue;
        if (f.via == 0 && x != 0)
          continue;  // flushed reader 0 only
        vsim::probe("batch.flush_true");
        // last export entered before the flush returned
        const ExpCall *last = nullptr;
        for (auto &ec : calls)
          if (ec.enter < f.ret)
            last = &ec;
        std::string why = "no Export at all";
        bool need = false;
        for (auto &kv : recs)
          if (kv.second.returned && kv.second.ret < f.inv)
            need = true;
        if (need && (!last || last->items.empty() ||
                     contains_all(last->items[0].second, f.inv, why) != 1))
          report_for(c, "C02.flush_incomplete",
                     fmt("periodic reader %d: ForceFlush returned true but %s", x, why.c_str()));
        bool xf = false;
        for (size_t i : xflush_enter)
          if (i > f.inv && i < f.ret)
            xf = true;
        if (!xf)
          report_for(c, "C02.flush_no_exporter_flush",
                     fmt("periodic reader %d: ForceFlush returned true without the exporter's "
                         "ForceFlush being invoked during the call",
                         x));
      }
      continue;
    }

    // ---- C01 (a) exactly once, (b) per-producer order
    std::map<std::pair<int64_t, int64_t>, int> seen;
    std::map<int64_t, int64_t> last_k;
    std::map<std::pair<int64_t, int64_t>, size_t> export_enter_of;
    for (auto &ec : calls)
      for (auto &it : ec.items)
      {
        if (it.first < 0)
        {
          report_for(c, "C01.garbage", fmt("exporter %d received a null/untagged record", x));
          continue;
        }
        if (!recs.count(it))
        {
          report_for(c, "C01.garbage", fmt("exporter %d received a record that was never produced", x));
          continue;
        }
        if (++seen[it] > 1)
          report_for(c, "C01.duplicate",
                     fmt("exporter %d received record (%lld,%lld) twice", x, (long long)it.first,
                         (long long)it.second));
        else
          export_enter_of[it] = ec.enter;
        if (recs[it].inv > ec.enter)
          report_for(c, "C01.garbage", fmt("exporter %d received a record before it was produced", x));
        auto lk = last_k.find(it.first);
        if (lk != last_k.end() && lk->second >= it.second)
          report_for(c, "C01.order",
                     fmt("exporter %d: producer %lld's record %lld exported after %lld", x,
                         (long long)it.first, (long long)it.second, (long long)lk->second));
        last_k[it.first] = it.second;
      }

    // ---- C01 (c) loss only by legitimate drop; (d) nothing produced after shutdown is exported
    if (is_batch)
    {
      for (auto &kv : recs)
      {
        const Rec &r  = kv.second;
        bool exported = seen.count(kv.first) != 0;
        if (r.inv > first_shut_ret && exported && first_shut_ret != SIZE_MAX)
          report_for(c, "C01.exported_after_shutdown",
                     fmt("record (%lld,%lld) was produced after Shutdown returned but exported",
                         (long long)kv.first.first, (long long)kv.first.second));
        if (!r.returned || exported)
          continue;
        if (r.ret > first_shut_inv)
          continue;  // overlapped or followed a Shutdown call: no obligation
        // the record was produced before any Shutdown began and never exported
        vsim::probe("batch.record_dropped");
        if (phase)
        {
          report_for(c, "C01.lost_with_room",
                     fmt("record (%lld,%lld) lost although at most max_queue_size=%lld records were "
                         "produced since the last completed flush",
                         (long long)kv.first.first, (long long)kv.first.second,
                         (long long)max_queue));
          continue;
        }
        int64_t A = 0, C = 0;
        for (auto &o : recs)
          if (o.first != kv.first && seen.count(o.first) && o.second.inv < r.ret)
            ++A;
        for (auto &ec : calls)
          if (ec.enter < r.inv)
            C += ec.size;
        if (A - C < max_queue)
          report_for(c, "C01.lost_with_room",
                     fmt("record (%lld,%lld) was not exported although at most %lld accepted "
                         "records minus %lld exported ones could be queued (max_queue_size=%lld)",
                         (long long)kv.first.first, (long long)kv.first.second, (long long)A,
                         (long long)C, (long long)max_queue));
        else if (span_world && nproc == 1 && !r.warned)
          report_for(c, "C01.lost_silently",
                     fmt("span (%lld,%lld) was dropped without the SDK's queue-full warning",
                         (long long)kv.first.first, (long long)kv.first.second));
      }
    }
    else
    {
      // simple processor: every record whose call returned was exported during the call
      for (auto &kv : recs)
        if (kv.second.returned && !seen.count(kv.first))
          report_for(c, "C01.simple_lost",
                     fmt("simple processor %d lost record (%lld,%lld)", x,
                         (long long)kv.first.first, (long long)kv.first.second));
    }

    // ---- C02 (a): ForceFlush returned true
    for (auto &f : flushes)
    {
      if (!f.returned || !f.result)
        continue;
      vsim::probe("batch.flush_true");
      if (is_batch)
      {
        for (auto &kv : recs)
        {
          const Rec &r = kv.second;
          if (!r.returned || r.ret > f.inv)
            continue;
          auto it = export_enter_of.find(kv.first);
          bool ok = it != export_enter_of.end() && it->second < f.ret;
          if (!ok)
          {
            // tolerated only if it was a legitimate drop
            bool exported_later = it != export_enter_of.end();
            if (exported_later || phase)
            {
              report_for(c, "C02.flush_incomplete",
                         fmt("processor %d: ForceFlush returned true but record (%lld,%lld), "
                             "produced before the call, had not been passed to Export",
                             x, (long long)kv.first.first, (long long)kv.first.second));
              break;
            }
          }
        }
        bool xf = false;
        for (size_t i : xflush_enter)
          if (i > f.inv && i < f.ret)
            xf = true;
        if (!xf)
          report_for(c, "C02.flush_no_exporter_flush",
                     fmt("processor %d: ForceFlush returned true without the exporter's "
                         "ForceFlush being invoked during the call",
                         x));
      }
    }
    // ---- C02 (b): Shutdown exports everything produced before it
    if (is_batch && first_shut_inv != SIZE_MAX)
    {
      // the first Shutdown call to return
      for (auto &kv : recs)
      {
        const Rec &r = kv.second;
        if (!r.returned || r.ret > first_shut_inv)
          continue;
        auto it = export_enter_of.find(kv.first);
        if (it != export_enter_of.end() && first_shut_ret != SIZE_MAX && it->second > first_shut_ret)
          report_for(c, "C02.shutdown_incomplete",
                     fmt("record (%lld,%lld) produced before Shutdown was exported only after it "
                         "returned",
                         (long long)kv.first.first, (long long)kv.first.second));
      }
    }
  }

  // ---- C02 (b'): calls issued after Shutdown returned are prompt and without effect
  bool all_batch = !metrics && layout == 0;
  if (all_batch && first_shut_ret != SIZE_MAX)
  {
    for (auto &kv : recs)
      if (kv.second.returned && kv.second.inv > first_shut_ret)
      {
        vsim::probe("batch.produce_after_shutdown");
        if (kv.second.timers > 0 || kv.second.pts > 1500)
          report_for(c, "C02.not_prompt_after_shutdown",
                     fmt("OnEnd/OnEmit after Shutdown took %lld schedule points and %lld timer "
                         "expiries",
                         (long long)kv.second.pts, (long long)kv.second.timers));
      }
    for (auto &f : flushes)
      if (f.returned && f.inv > first_shut_ret)
      {
        vsim::probe("batch.flush_after_shutdown");
        if (f.timers > 0 || f.pts > 1500)
          report_for(c, "C02.not_prompt_after_shutdown",
                     fmt("ForceFlush after Shutdown took %lld schedule points and %lld timer "
                         "expiries",
                         (long long)f.pts, (long long)f.timers));
        if (f.result)
          report_for(c, "C02.flush_true_after_shutdown",
                     "ForceFlush issued after Shutdown had returned reported success");
      }
    for (auto &s : shuts)
      if (s.returned && s.inv > first_shut_ret && !s.is_destroy)
      {
        vsim::probe("batch.shutdown_after_shutdown");
        if (s.timers > 0 || s.pts > 1500)
          report_for(c, "C02.not_prompt_after_shutdown",
                     fmt("a repeated Shutdown took %lld schedule points and %lld timer expiries",
                         (long long)s.pts, (long long)s.timers));
      }
  }
}

// --------------------------------------------------------------- generation
void generate(const std::string &prop, Rng &wl, Rng &fl, Case &c)
{
  vsim::SimKnobs sk;
  sk.allow_call_points = true;
  sk.allow_cas_spurious = true;
  sk.allow_cv_spurious  = true;
  sk.allow_stall        = true;
  sk.allow_sysjump      = true;
  sk.allow_spawn_fail   = true;  // only bites where an SDK worker creates threads (periodic reader)
  sk.faults_on          = fl.chance(0.7);
  // world
  int world;
  double r = wl.real();
  if (prop == "C01")
    world = r < 0.35 ? W_SPAN_DIRECT : r < 0.70 ? W_LOG_DIRECT : r < 0.85 ? W_SPAN_PROVIDER
                                                                          : W_LOG_PROVIDER;
  else if (prop == "C02")
    world = r < 0.25   ? W_SPAN_DIRECT
            : r < 0.50 ? W_LOG_DIRECT
            : r < 0.65 ? W_SPAN_PROVIDER
            : r < 0.80 ? W_LOG_PROVIDER
                       : W_PERIODIC;
  else
    world = r < 0.20   ? W_SPAN_DIRECT
            : r < 0.40 ? W_LOG_DIRECT
            : r < 0.50 ? W_SPAN_PROVIDER
            : r < 0.60 ? W_LOG_PROVIDER
            : r < 0.72 ? W_SPAN_SIMPLE
            : r < 0.84 ? W_LOG_SIMPLE
                       : W_PERIODIC;
  c.set("world", world);
  bool metrics = world == W_PERIODIC;
  bool simple  = world == W_SPAN_SIMPLE || world == W_LOG_SIMPLE;
  bool big      = vsim::tier_scale() > 1 && wl.chance(0.5);
  int max_queue = (int)wl.range(1, big ? 16 : 8);
  int max_batch = (int)wl.range(1, max_queue);
  static const int64_t delays[] = {1, 5, 100, 5000};
  int64_t delay_ms              = wl.pick(delays);
  c.set("max_queue", max_queue);
  c.set("max_batch", max_batch);
  c.set("delay_ms", delay_ms);
  c.set("ctor", (int64_t)wl.below(5));  // construction route, see make_batch_span / make_batch_log
  int lat_sel = (int)wl.below(3);
  int64_t lat_unit = delay_ms;  // ms
  c.set("to_small_us", std::max<int64_t>(1, delay_ms * 300));
  c.set("to_large_us", 60000000);
  int nproc = 1;
  if (world == W_SPAN_PROVIDER || world == W_LOG_PROVIDER)
  {
    nproc = (int)wl.range(1, 2);
    // C01/C02 keep mostly batch processors; C03 mixes
    int layout = 0;
    if (wl.chance(0.3))
      layout = (int)wl.below(1 << nproc);
    c.set("nproc", nproc);
    c.set("layout", layout);
    c.set("add_later", nproc > 1 && wl.chance(0.4));
    c.set("prov_route", wl.chance(0.5) ? 0 : (int64_t)wl.range(1, 4));
  }
  if (metrics)
  {
    nproc = (int)wl.range(1, 2);
    c.set("nproc", nproc);
    static const int64_t ivs[] = {100, 1000, 60000};
    int64_t iv                 = wl.pick(ivs);
    c.set("interval_ms", iv);
    // a 1 ms export timeout makes the "collect took too long, export cancelled" path common
    // (with 100 us per schedule point every cycle exceeds it)
    c.set("timeout_ms", wl.chance(0.3) ? 1 : iv / 2);
  }

  // A spin lock held across a slow Export costs every contender ~105 points per
  // simulated millisecond, so worlds that contain a simple processor keep exporter
  // latencies in the millisecond range (the budget must fit legal executions).
  bool has_simple = simple || c.knob("layout", 0) != 0;
  if (has_simple)
    lat_unit = 1;
  c.set("export_latency_ns",
        lat_sel == 0 ? 0 : lat_sel == 1 ? lat_unit * 500000 : lat_unit * 3000000);
  // stratum
  double s = wl.real();
  std::string stratum;
  if (metrics)
    stratum = "periodic";
  else if (simple)
    stratum = "simple";
  else if (prop == "C01" && s < 0.25)
    stratum = "phase";
  else if (prop == "C01" && s < 0.40 && !has_simple)
    stratum = "stall";
  else if (prop == "C03" && s < 0.35)
    stratum = "early_flush";
  else
    stratum = "free";

  int nprod = (int)wl.range(1, 3);
  if (stratum == "phase")
  {
    // [produce <= max_queue in total] barrier [flush] barrier, repeated
    int phases = (int)wl.range(1, 3);
    std::vector<TaskProg> prods(nprod);
    TaskProg ctl;
    ctl.role = R_CONTROL;
    std::vector<int> kcount(nprod, 0);
    int64_t bid = 0;
    // initial flush so that the first phase starts from an empty queue
    for (int ph = 0; ph < phases; ++ph)
    {
      int budget = max_queue;
      // sometimes an impatient flush (small timeout: it may give up while the worker sits in a
      // slow Export) in the middle of the phase's production; the phase still ends with a flush
      // that waits without limit, so "completed flush" stays literal and the phase total stays
      // within max_queue_size
      bool impatient = wl.chance(0.3);
      std::vector<int> second(nprod, 0);
      for (int p = 0; p < nprod; ++p)
      {
        int n = (int)wl.range(0, budget);
        if (p == nprod - 1 && wl.chance(0.5))
          n = budget;  // bias to exactly max_queue_size records in the phase
        budget -= n;
        int first = impatient ? (int)wl.range(0, n) : n;
        second[p] = n - first;
        for (int i = 0; i < first && kcount[p] < 12; ++i)
          prods[p].ops.push_back({OP_PRODUCE, kcount[p]++, 0, 0, 0});
      }
      if (impatient)
      {
        for (int p = 0; p < nprod; ++p)
          prods[p].ops.push_back({OP_BARRIER, bid, 0, 0, 0});
        ctl.ops.push_back({OP_BARRIER, bid, 0, 0, 0});
        ++bid;
        ctl.ops.push_back({OP_FLUSH, 1, 0, 0, 0});
        for (int p = 0; p < nprod; ++p)
          prods[p].ops.push_back({OP_BARRIER, bid, 0, 0, 0});
        ctl.ops.push_back({OP_BARRIER, bid, 0, 0, 0});
        ++bid;
        for (int p = 0; p < nprod; ++p)
          for (int i = 0; i < second[p] && kcount[p] < 12; ++i)
            prods[p].ops.push_back({OP_PRODUCE, kcount[p]++, 0, 0, 0});
      }
      for (int p = 0; p < nprod; ++p)
        prods[p].ops.push_back({OP_BARRIER, bid, 0, 0, 0});
      ctl.ops.push_back({OP_BARRIER, bid, 0, 0, 0});
      ++bid;
      ctl.ops.push_back({OP_FLUSH, 3, 0, 0, 0});
      for (int p = 0; p < nprod; ++p)
        prods[p].ops.push_back({OP_BARRIER, bid, 0, 0, 0});
      ctl.ops.push_back({OP_BARRIER, bid, 0, 0, 0});
      ++bid;
    }
    for (auto &p : prods)
    {
      p.role = R_PRODUCER;
      c.tasks.push_back(p);
    }
    c.tasks.push_back(ctl);
    // exporter faults that make a flush fail would break the phase premise
    sk.allow_stall = false;
  }
  else
  {
    for (int p = 0; p < nprod; ++p)
    {
      TaskProg t;
      t.role = R_PRODUCER;
      int n  = (int)wl.range(1, metrics ? (big ? 6 : 4) : (big ? 20 : 12));
      for (int k = 0; k < n; ++k)
      {
        if (wl.chance(0.15))
          t.ops.push_back({OP_SLEEP, (int64_t)(delay_ms * 1000000 * wl.range(1, 3) / 2), 0, 0, 0});
        t.ops.push_back({OP_PRODUCE, k, 0, 0, 0});
      }
      c.tasks.push_back(t);
    }
    int nctl = 0;
    if (prop == "C01")
      nctl = stratum == "stall" ? (int)wl.range(0, 1) : (int)wl.range(0, 2);
    else if (prop == "C02")
      nctl = (int)wl.range(1, 3);
    else
      nctl = (int)wl.range(1, 2);
    bool any_shutdown = false;
    for (int i = 0; i < nctl; ++i)
    {
      TaskProg t;
      t.role = R_CONTROL;
      int n  = (int)wl.range(1, prop == "C02" ? 5 : 3);
      if (stratum == "early_flush" && i == 0)
        t.ops.push_back({OP_FLUSH, wl.chance(0.5) ? 3 : 2, wl.chance(0.3) ? 1 : 0, 0, 0});
      for (int j = 0; j < n; ++j)
      {
        double q = wl.real();
        if (q < 0.25)
          t.ops.push_back({OP_SLEEP, (int64_t)(delay_ms * 1000000 * wl.range(1, 4) / 2), 0, 0, 0});
        else if (q < 0.70 || stratum == "early_flush")
        {
          int64_t code = (int64_t)wl.below(4);
          // MeterContext::ForceFlush holds a spin lock across the whole wait: only one
          // controller flushes through the meter provider, the others flush the reader
          bool via_provider = wl.chance(0.4) && (!metrics || i == 0);
          t.ops.push_back({OP_FLUSH, code, via_provider ? 1 : 0, 0, 0});
        }
        else
        {
          // the periodic reader's own Shutdown is not idempotent (and not required to be);
          // the provider latches, so shut it down through the provider
          // every timeout class, also zero and one shorter than an Export in flight
          int64_t code = wl.chance(0.4) ? 3 : (int64_t)wl.below(3);
          // (also in the stall stratum: a Shutdown whose drain sits in the stalled exporter
          // may block its caller, never a producer)
          t.ops.push_back({OP_SHUTDOWN, code, 1, 0, 0});
          any_shutdown = true;
        }
      }
      if (any_shutdown && prop == "C02" && wl.chance(0.5))
      {
        // calls issued after shutdown
        t.ops.push_back({OP_FLUSH, (int64_t)wl.below(4), 0, 0, 0});
        if (wl.chance(0.5))
          t.ops.push_back({OP_SHUTDOWN, 3, 1, 0, 0});
      }
      c.tasks.push_back(t);
    }
    if (any_shutdown && prop == "C02" && wl.chance(0.5) && !metrics)
      c.tasks[0].ops.push_back({OP_PRODUCE, (int64_t)c.tasks[0].ops.size() + 20, 0, 0, 0});
  }
  c.stratum = stratum + (sk.faults_on ? ".faults" : ".nofaults");

  // engine-level fault plan
  if (sk.faults_on)
  {
    int nf = (int)fl.range(0, 3);
    for (int i = 0; i < nf; ++i)
    {
      Fault f;
      f.target = (int)fl.below(nproc);
      f.at     = (int)fl.below(4);
      double q = fl.real();
      int64_t slow_short = lat_unit * 400000, slow_long = lat_unit * 4000000;
      if (stratum == "stall" && i == 0)
      {
        f.kind = F_EXPORT_STALL;
        f.at   = (int)fl.below(2);
      }
      else if (q < 0.3)
        f.kind = F_EXPORT_FAIL;
      else if (q < 0.55)
      {
        f.kind = F_EXPORT_SLOW;
        f.arg  = fl.chance(0.5) ? slow_short : slow_long;
      }
      else if (q < 0.68)
        f.kind = F_FLUSH_FAIL;
      else if (q < 0.80)
      {
        f.kind = F_FLUSH_SLOW;
        f.arg  = fl.chance(0.5) ? slow_short : slow_long;
      }
      else if (q < 0.90)
        f.kind = F_SHUTDOWN_FAIL;
      else
      {
        f.kind = F_SHUTDOWN_SLOW;
        f.arg  = slow_long;
      }
      // an unreachable backend: the call keeps failing from then on (a third of the failures)
      if ((f.kind == F_EXPORT_FAIL || f.kind == F_FLUSH_FAIL || f.kind == F_SHUTDOWN_FAIL) &&
          fl.chance(0.33))
        f.arg = 1;
      if (stratum == "phase" && (f.kind == F_FLUSH_FAIL))
        continue;  // keeps "flush completed" literal in the phase stratum
      c.faults.push_back(f);
    }
  }
  else if (stratum == "stall")
  {
    c.faults.push_back({F_EXPORT_STALL, 0, 0, 0});
  }
  sk.typical_len = metrics ? 1500 : 400;
  sk.stall_cap   = 500;
  vsim::draw_run_config(fl, sk, c.rc);
  // MultiRecordable fans setters out in an order that depends on processor addresses; with
  // several processors the number of function boundaries crossed before a harness yield is
  // therefore not a function of the run, so call-boundary preemption stays off in those runs
  if (c.knob("nproc", 1) > 1)
  {
    c.rc.call_period = 0;
    c.rc.p_call      = 0;
  }
  c.rc.budget1 = 40000;
  c.rc.budget2 = 120000;
}

std::string describe_op(const Case &c, int, const Op &op)
{
  static const char *to[] = {"0 (no limit)", "small", "large", "max"};
  switch (op.kind)
  {
    case OP_PRODUCE:
      return fmt("produce #%lld", (long long)op.a);
    case OP_FLUSH:
      return fmt("ForceFlush(timeout=%s) via %s", to[op.a & 3],
                 op.b ? "provider" : "processor/reader");
    case OP_SHUTDOWN:
      return fmt("Shutdown(timeout=%s)", to[op.a & 3]);
    case OP_SLEEP:
      return fmt("sleep %.3f ms (simulated)", op.a / 1e6);
    case OP_BARRIER:
      return fmt("barrier %lld", (long long)op.a);
  }
  (void)c;
  return "?";
}

std::string describe_fault(const Case &, const Fault &f)
{
  static const char *names[] = {"?",          "export_fail", "export_slow",   "export_stall",
                                "flush_fail", "flush_slow",  "shutdown_fail", "shutdown_slow"};
  if (XCore::persistent(f))
    return fmt("%s at call %d of exporter %d and at every later call", names[f.kind & 7], f.at,
               f.target);
  return fmt("%s at call %d of exporter %d (arg %.3f ms)", names[f.kind & 7], f.at, f.target,
             f.arg / 1e6);
}

const char *const kProps[] = {"C01", "C02", "C03", nullptr};
const std::pair<const char *, int64_t> kShrink[] = {
    {"max_queue", 1}, {"max_batch", 1}, {"nproc", 1}, {"export_latency_ns", 0}, {nullptr, 0}};
const char *const kReal[] = {"sdk/trace/batch_span_processor.cc",
                             "sdk/logs/batch_log_record_processor.cc",
                             "sdk/trace/simple_processor.h",
                             "sdk/logs/simple_log_record_processor.cc",
                             "sdk/trace/multi_span_processor.h + multi_recordable.h",
                             "sdk/logs/multi_log_record_processor.cc + multi_recordable.cc",
                             "sdk/trace/tracer_provider.cc, tracer_context.cc, tracer.cc, span.cc",
                             "sdk/logs/logger_provider.cc, logger_context.cc, logger.cc",
                             "sdk/metrics/export/periodic_exporting_metric_reader.cc",
                             "sdk/metrics/metric_reader.cc, meter_context.cc, meter_provider.cc, "
                             "meter.cc, state/*",
                             "sdk/common/circular_buffer.h, atomic_unique_ptr.h",
                             "api/common/spin_lock_mutex.h",
                             nullptr};
const char *const kStub[] = {
    "SpanExporter / LogRecordExporter / PushMetricExporter (record calls, in-flight counter, "
    "simulated latency, fail / slow / stall on the fault plan)",
    "GlobalLogHandler (captures the queue-full warning)", nullptr};
}  // namespace

namespace vsim
{
const EngineDesc g_engine = {
    "batch",
    kProps,
    generate,
    body,
    check,
    describe_op,
    describe_fault,
    kShrink,
    kReal,
    kStub,
    "one run = a generated world (batch span/log processor driven directly or through its "
    "provider with 1-2 processors, simple processors, or MeterProvider + periodic reader), "
    "1-3 producer programs of 1-12 tagged records and 0-3 controller programs of "
    "ForceFlush/Shutdown/sleep ops (timeouts 0/small/large/max), knobs max_queue 1-8, batch "
    "1..queue, schedule delay 1ms-5s, exporter latency 0/0.5x/3x delay, an exporter fault plan "
    "(fail/slow/stall of Export/ForceFlush/Shutdown) and scheduler faults (spurious CAS / cv "
    "wake-ups, task stalls, system clock jumps), executed under a seeded schedule with "
    "destruction inside the run; distinct = distinct (workload hash, trace hash); non-trivial = "
    ">= 2 tasks and >= 1 context switch while a task was inside an API operation"};
}
